#!/usr/bin/env python3
"""Regenerate MANIFEST.json from the table below (one place to keep it consistent)."""
import json
from pathlib import Path

HERE = Path(__file__).resolve().parent.parent

# id -> (category, technique, level text, level note, design ref)
CHECKS = {}


def reg(pid, technique, text, note, category='exploration'):
    CHECKS[pid] = (category, technique, text, note, 'DESIGN.md section 5, %s' % pid)


TRUST = ('Trusted: NumPy semantics as oracle, the in-process numpy.lib.format compatibility shim, '
         'Hypothesis generators. Bounded sizes/counts as stated in evidence.coverage.rule.')

reg('C16', 'exhaustive small-scope enumeration (16 shards) with a row-set tiling oracle',
    'Every (length, chunk, overlap) triple up to the bound, every excerpt triple, every small '
    'multi-file size list (on the pure function and on real flat readers) and a grid of '
    'compressed readers are enumerated completely and checked against set-theoretic tiling '
    'predicates; inside the bound this is exhaustive, outside it nothing is claimed.',
    TRUST + ' mtscomp as codec.')

reg('C07', 'exhaustive small-scope enumeration + Hypothesis random vectors vs set-theoretic oracle',
    'All cluster vectors over a gapped 4-id alphabet up to the length bound, in four integer '
    'dtypes, are enumerated and every helper is compared with list-comprehension/set definitions '
    '(partition, increasing groups, sorted unions, unsorted lookups); long random vectors and '
    'model-level queries on generated datasets extend this beyond the bound by sampling.', TRUST)
reg('C15', 'exhaustive small-scope enumeration + Hypothesis random trains vs O(n^2) pair-count oracle',
    'Every spike train on a 4-gap grid up to the length bound, every labelling, five (bin, window) '
    'pairs, permuted cluster-id lists with absent ids are enumerated and compared with a '
    'brute-force pair count in exact integer arithmetic; random trains up to 400 spikes are sampled.',
    TRUST + ' Power-of-two sample rates (exact time*rate).')
reg('C17', 'Hypothesis generated selector instances vs constraint oracle',
    'Generated chunk grids, spike times biased onto chunk bounds, cluster vectors and call '
    'sequences are checked against constraints that hold for every random draw of the selector '
    '(membership, strict order, stride of kept chunks, exact counts); the RNG inside phylib is '
    'seeded from the case so each case replays exactly.', TRUST)

reg('C19', 'Hypothesis stateful (RuleBasedStateMachine) histories vs list/flag reference models',
    'Two rule-based state machines generate connect/unconnect/reset/silence/emit histories and '
    'progress-reporter histories; after every step the observed callback calls, arguments, return '
    'values and announced events are compared with a reference model written from the statement. '
    'The shrunk operation trace is the replay file.', TRUST)
reg('C20', 'exhaustive fault-script enumeration against an in-process HTTP mock vs reference model',
    'The whole stated space (response scripts of length <=3 x checksum behaviours x prior file '
    'states; thorough: longer scripts, truncated bodies, body sizes around the stream chunk) is '
    'enumerated; each run is compared with a reference model of the retry protocol and with the '
    'safety predicate "normal return with an available checksum implies matching MD5".',
    TRUST + ' responses as HTTP mock.', category='fault_enumeration')

reg('C18', 'Hypothesis recursive value generators with save/load round-trip oracle',
    'Generated dictionaries (recursive values incl. every numeric ndarray dtype, byte order, rank '
    'and memory layout), TSV/CSV row lists, two-column tables and parameter dictionaries are saved '
    'and loaded back; the result is compared type-exactly (NaN-aware, float cells to the written '
    'precision) with the value that was saved.', TRUST + ' Python json/csv.')

reg('C01', 'exhaustive small-scope enumeration + Hypothesis layouts/index expressions vs NumPy-indexing oracle',
    'For every recording length up to the bound, every composition into flat files and every '
    'single-part backend, ALL supported index expressions x column selectors are enumerated and '
    'compared with NumPy indexing of the concatenated array; larger multi-file layouts with '
    'unaligned header offsets and boundary-biased expressions are sampled with Hypothesis.',
    TRUST + ' mtscomp as codec.')
reg('C02', 'Hypothesis generated operator programs / derivation trees, differential vs eager NumPy',
    'Generated derivation trees of lazy readers (all operators, reflected forms, column '
    'selection, int and float scalars, every backend) are read in generated orders and compared '
    'with the same Python expression evaluated eagerly on the loaded array; parents and siblings '
    'are re-read after every derivation to expose aliasing.', TRUST + ' mtscomp as codec.')

reg('C03', 'Hypothesis generated recordings/spikes/channel rows, all routes vs double-loop window oracle',
    'Generated recordings in every backend and chunking, spike vectors biased to recording, file '
    'and chunk boundaries (signed and unsigned), window lengths beyond the recording, channel rows '
    'with -1, unit factors and store queries are pushed through direct extraction, chunked export '
    '(np.load of the file) and store lookup; each result is compared exactly with the zero-padded '
    'window defined in the statement.', TRUST + ' mtscomp as codec.')

DS = ' Datasets have >=2 spikes/templates/channels/samples (squeeze degeneracy is a documented precondition).'
reg('C04', 'Hypothesis generated dataset directories (switch product) vs stored-array oracle + file hashes',
    'Dataset directories are generated over the product of naming schemes, vector shapes, optional '
    'files, dense/sparse templates, dtypes, raw backends and NaN injection; every public attribute '
    'of the loaded model is compared with the arrays the generator stored (documented defaults for '
    'absent files), non-monotonic variants must be rejected, and SHA-256 hashes of the directory '
    'before/after loading decide the no-modification / created-files clauses.', TRUST + DS)

reg('C05', 'Hypothesis generated datasets/geometries/requests vs definition oracle with tie bands',
    'Generated dense and sparse template sets, geometries with distance ties, shank layouts, '
    'whitening matrices, thresholds and explicit channel lists; each returned record is checked '
    'clause by clause (distinctness, ordering, peak first, column and amplitude alignment, exact '
    'channel set up to documented don\'t-care bands) against quantities recomputed from the '
    'stored arrays.', TRUST + DS + ' float32 rounding handled by rtol 1e-5 and decision bands.')

reg('C06', 'Hypothesis generated sparse triples and feature stores vs triple-loop oracle; PCA vs eigh oracle',
    'Generated (data, column table, request) triples incl. trailing dimensions, unknown channels, '
    'empty inputs and unsigned tables are densified and compared exactly with a triple-loop '
    'definition; generated datasets exercise get_features / get_template_features with and '
    'without row tables; the no-feature-file path is compared (sign-free, eigen-gap guarded) with '
    'projections on eigenvectors computed independently.', TRUST + DS + ' numpy.linalg.eigh.')

reg('C08', 'Hypothesis generated curation histories on dense datasets vs provenance / weighted-mean oracle',
    'Cluster assignments are produced by generated merge/split/reassign/skip histories; the '
    'merge map, empty ids, cluster count and every cluster waveform (single-template identity, '
    'count-weighted mean on the dominant template\'s channels with channel restriction recomputed '
    'independently, zero elsewhere) are compared with formulas on the stored arrays; un-curated '
    'datasets with unused ids anywhere check the identity branch.', TRUST + DS)
reg('C09', 'Hypothesis generated dense datasets vs direct-formula oracle',
    'Amplitude, mean-amplitude, rescaled-waveform, peak-channel, duration and depth summaries of '
    'generated datasets (ids without spikes at every position, unit factors, rates, curated or '
    'not) are compared with the defining formulas evaluated on the stored arrays.', TRUST + DS)

reg('C10', 'Hypothesis stateful (RuleBasedStateMachine) save/reload histories vs dictionary reference model',
    'A rule-based state machine interleaves save_spike_clusters, save_metadata, foreign '
    '(valid/malformed) TSV/CSV files, subset-waveform export, close and reload on a generated '
    'dataset; after every reload (and once more at the end) the freshly loaded model is compared '
    'with a dictionary model of the last saved state, and stored waveforms with the raw windows. '
    'The shrunk (spec, trace) pair is the replay file.', TRUST + DS + ' Python csv; mtscomp.')

MRG = ' Merge inputs always contain amplitudes, index tables (equal widths) and spike_clusters, as KiloSort writes them.'
reg('C11', 'Hypothesis generated multi-probe inputs vs stable-sort/offset oracle + input hashes',
    'One to four generated probe directories (ties in time inside and across probes, id gaps, '
    'curated clusters, mixed dtypes, optional per-cluster TSV files in all/some/none) are merged '
    'by the real Merger; every merged spike is traced back to its (probe, index) pair through an '
    'independent stable sort, per-probe id offsets are inferred and checked for constancy and '
    'disjointness, metadata renumbering and probe tables are compared, and SHA-256 hashes show '
    'the inputs untouched.', TRUST + DS + MRG)
reg('C12', 'Hypothesis generated multi-probe inputs vs block-structure oracle (known finding excluded by construction)',
    'The files written by the real Merger for one to four generated probes of unequal channel and '
    'template counts are compared block by block with the inputs: channel blocks, probe labels, '
    'x-translated geometry kept apart, template rows on their own channel block, index tables in '
    'merged numbering, block-diagonal matrices, parameters. The recorded finding F13 is excluded '
    'from generation (counted) and pinned by a witness case.', TRUST + DS + MRG)

reg('C13', 'Hypothesis generated dense datasets through the real ALF exporter vs file-set predicate, reload oracle and hashes',
    'Generated dense datasets (raw or not, features, curated or not with unused ids anywhere, '
    'optional rename-table files, (n,1) vectors, labels, unit factors) are converted; the output '
    'file set is checked family by family (first dimensions, unique identifiers, label placement, '
    'every .npy loads), the model returned for the output is compared with the source arrays, the '
    'same-directory refusal is exercised, and SHA-256 hashes decide the source-untouched clause.',
    TRUST + DS + ' Feature stores hold all spikes. mtscomp.')
reg('C14', 'Hypothesis generated single and Merger-produced datasets through the real ALF exporter vs formula oracle',
    'Single datasets and datasets produced by the real Merger from 1-4 generated probes are '
    'exported; every exported quantity (rescaled unwhitened waveforms on admissible nearest '
    'same-probe channel lists, spike/template/cluster amplitudes with the unit factor, peak '
    'channels, depths, durations, per-probe raw indices) is recomputed from the source files with '
    'direct formulas and compared within float32 tolerance, with don\'t-care handling of distance '
    'ties and of the L1/L2 metric.', TRUST + DS + MRG + ' float32 storage (rtol 1e-4).')


def main():
    props = [json.loads(l) for l in (HERE / 'properties.jsonl').read_text().splitlines() if l.strip()]
    checks = []
    na = []
    for p in props:
        pid = p['id']
        if pid in CHECKS:
            cat, tech, text, note, ref = CHECKS[pid]
            checks.append(dict(
                property_id=pid,
                quick_cmd='./check %s --tier quick' % pid,
                thorough_cmd='./check %s --tier thorough' % pid,
                evidence_file='evidence/%s.json' % pid,
                replay_cmd_template='./check %s --replay {path}' % pid,
                engine='pbt',
                level_claimed=dict(category=cat, text=text, design_ref=ref),
                level_note=note,
                technique=tech))
        else:
            na.append(dict(property_id=pid,
                           reason='check not built yet (work in progress; the design in DESIGN.md '
                                  'section 5 applies property-based testing to it)'))
    man = dict(
        version=1,
        setup_cmd='./setup.sh',
        hooks=dict(
            guard='PHYLIB_VERIF',
            enable='no hooks are needed: every observation point is a public return value or a '
                   'file; checks import /repo\'s working tree directly (sys.path) in a fresh process',
            baseline_off_cmd='cd /repo && /venv/bin/python -m pytest -ra -q -p no:cacheprovider '
                             '--timeout=900 --continue-on-collection-errors',
            source_commits=[],
            add_only=True),
        engines=[dict(name='pbt', path='pbt/core.py',
                      serves_properties=sorted(CHECKS),
                      kind_free_text='property-based testing: exhaustive small-scope enumeration + '
                                     'Hypothesis (given / RuleBasedStateMachine) generators, '
                                     'independent oracles, shrunk JSON replay files')],
        checks=checks,
        notes='See DESIGN.md. Every check: exit 0 = held on everything explored, exit 1 + '
              'VIOLATION line = violation with replay file, exit 2 = harness error. '
              'KNOWN_FINDINGS.txt lists recorded/fixed findings.',
        not_applicable=na)
    (HERE / 'MANIFEST.json').write_text(json.dumps(man, indent=1) + '\n')
    print('MANIFEST.json: %d checks, %d not_applicable' % (len(checks), len(na)))


if __name__ == '__main__':
    main()
