#!/bin/sh
# Run every registered check (tier = $1, default quick) and validate manifest + evidence schemas.
cd "$(dirname "$0")/.."
tier=${1:-quick}
rc=0
for id in $(python3 -c "import json; print(' '.join(c['property_id'] for c in json.load(open('MANIFEST.json'))['checks']))"); do
  start=$(date +%s)
  out=$(./check $id --tier $tier 2>&1); code=$?
  echo "$out" | grep -E "^(C[0-9]+ tier|VIOLATION|KNOWN-FINDING|HARNESS)" | cut -c1-160
  [ $code -ne 0 ] && { echo "  -> exit $code"; rc=1; }
done
python3-vt - <<'PY'
import json, jsonschema, glob
jsonschema.validate(json.load(open('MANIFEST.json')), json.load(open('/root/.vp/MANIFEST.schema.json')))
sch = json.load(open('/root/.vp/EVIDENCE.schema.json'))
for f in sorted(glob.glob('evidence/*.json')):
    jsonschema.validate(json.load(open(f)), sch)
print('manifest and', len(glob.glob('evidence/*.json')), 'evidence files validate')
PY
exit $rc
