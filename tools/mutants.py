#!/venv/bin/python
"""Sensitivity harness: apply catalogued one-line mutants (pbt/mutant_catalogue.py) to a scratch
copy of the repo, run the property's check against the copy (VERIF_REPO), expect VIOLATION.

usage: tools/mutants.py C16 [name-substring] [--tier quick|thorough] [--jobs N]
Not a registered check; never touches /repo or /verif/replays."""
import argparse
import os
import shutil
import subprocess
import sys
import tempfile
from concurrent.futures import ThreadPoolExecutor
from pathlib import Path

HERE = Path(__file__).resolve().parent.parent
sys.path.insert(0, str(HERE))
from pbt.mutant_catalogue import MUTANTS  # noqa: E402

REPO = Path('/repo')


def run_one(pid, m, tier, workers):
    name, relfile, old, new = m
    base = '/dev/shm' if os.path.isdir('/dev/shm') else tempfile.gettempdir()
    d = Path(tempfile.mkdtemp(prefix='phylib-mut-', dir=base))
    try:
        shutil.copytree(REPO / 'phylib', d / 'phylib', ignore=shutil.ignore_patterns('__pycache__'))
        f = d / relfile
        src = f.read_text()
        if src.count(old) != 1:
            return name, 'BAD-MUTANT (pattern occurs %d times)' % src.count(old), ''
        f.write_text(src.replace(old, new))
        envv = dict(os.environ, VERIF_REPO=str(d), VERIF_REPLAY_DIR=str(d / 'replays'),
                    PYTHONDONTWRITEBYTECODE='1')
        p = subprocess.run([str(HERE / 'check'), pid, '--tier', tier, '--no-evidence',
                            '--workers', str(workers)],
                           env=envv, capture_output=True, text=True, cwd=str(HERE))
        out = p.stdout
        viol = [l for l in out.splitlines() if l.startswith('VIOLATION')]
        detail = [l for l in out.splitlines() if l.startswith('  ')][:1]
        if p.returncode == 1 and viol:
            return name, 'caught', (detail[0].strip()[:150] if detail else '')
        if p.returncode == 2:
            return name, 'HARNESS-ERROR', (p.stderr.strip().splitlines() or [''])[-1][:200]
        return name, 'MISSED (exit %d)' % p.returncode, ''
    finally:
        shutil.rmtree(d, ignore_errors=True)


def main():
    ap = argparse.ArgumentParser()
    ap.add_argument('pid')
    ap.add_argument('filter', nargs='?', default='')
    ap.add_argument('--tier', default='quick')
    ap.add_argument('--jobs', type=int, default=4)
    a = ap.parse_args()
    pid = a.pid.upper()
    ms = [m for m in MUTANTS.get(pid, []) if a.filter in m[0]]
    workers = max(1, 16 // a.jobs)
    with ThreadPoolExecutor(a.jobs) as ex:
        res = list(ex.map(lambda m: run_one(pid, m, a.tier, workers), ms))
    bad = 0
    for name, status, detail in res:
        print('%-8s %-40s %-14s %s' % (pid, name, status, detail))
        bad += status != 'caught'
    print('%s: %d/%d mutants caught' % (pid, len(res) - bad, len(res)))
    return 1 if bad else 0


if __name__ == '__main__':
    sys.exit(main())
