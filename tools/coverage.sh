#!/bin/sh
# Development aid, not a registered check: line coverage of /repo/phylib under the quick tier of
# the given checks (default: all).  Prints the lines of the anchored modules that no case executed.
cd "$(dirname "$0")/.."
out=$(mktemp -d /dev/shm/verif-cov-XXXXXX)
ids=${*:-$(python3 -c "import json; print(' '.join(c['property_id'] for c in json.load(open('MANIFEST.json'))['checks']))")}
for id in $ids; do
  VERIF_COVERAGE=$out/data ./check $id --tier quick --no-evidence >/dev/null 2>&1
done
cd $out && /venv/bin/python -m coverage combine --data-file=$out/data $out >/dev/null 2>&1
/venv/bin/python -m coverage report --data-file=$out/data -m --include='*/phylib/io/*,*/phylib/stats/ccg.py,*/phylib/utils/event.py,*/phylib/utils/_misc.py,*/phylib/utils/_types.py' --omit='*/tests/*' 2>&1
rm -rf $out
