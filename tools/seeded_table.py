#!/usr/bin/env python3
"""Print a markdown table of the seeded changes and which tier of the property's check catches them."""
import json
from pathlib import Path

HERE = Path(__file__).resolve().parent.parent
rows = []
for d in sorted((HERE / 'seeded').iterdir(), key=lambda p: (p.name.split('-')[0], int(p.name.split('-')[1]))):
    m = json.loads((d / 'meta.json').read_text())
    res = m.get('check_results', {})
    q = res.get('quick', {}).get('status', '-')
    t = res.get('thorough', {}).get('status', '')
    need = ' '.join(m.get('needs_to_manifest', '').split())
    # first sentence-ish of the note
    short = need[:170] + ('...' if len(need) > 170 else '')
    verdict = 'caught (quick)' if q == 'caught' else ('caught (thorough)' if t == 'caught' else
                                                      ('see verdict' if m.get('verdict') else q))
    if m.get('verdict') and q != 'caught':
        verdict = 'not reported: ' + m['verdict'].split(':')[0][:60]
    rows.append('| %s | %s | %s |' % (m['id'], short.replace('|', '/'), verdict))
print('| id | change (from the author\'s note) | result |')
print('|----|----------------------------------|--------|')
print('\n'.join(rows))
