#!/venv/bin/python
"""Confirm and evaluate independently written breaking changes ("seeded" changes).

  tools/seeded.py import /tmp/wt/C05/seeded C05      # confirm patch1/patch2 + demos, store them
  tools/seeded.py run [ID-n ...] [--tier quick|thorough]   # run the checks against stored ones

Confirmation (in a scratch git worktree of /repo under /dev/shm, removed afterwards):
  clean tree: demo exits 0; patched tree: pinned test suite still 52 passed, demo exits non-zero.
Stored layout: seeded/<ID>-<n>/{patch.diff, demo.py, meta.json}.
Evaluation: VERIF_REPO=<scratch worktree with the patch> ./check <ID> ...; never touches /repo.
"""
import argparse
import json
import os
import re
import shutil
import subprocess
import sys
import tempfile
import time
from pathlib import Path

HERE = Path(__file__).resolve().parent.parent
REPO = Path('/repo')
SEEDED = HERE / 'seeded'
PY = '/venv/bin/python'


def sh(cmd, cwd=None, env=None, timeout=3600):
    p = subprocess.run(cmd, cwd=cwd, env=env, capture_output=True, text=True, timeout=timeout)
    return p.returncode, p.stdout + p.stderr


class Worktree(object):
    def __enter__(self):
        base = '/dev/shm' if os.path.isdir('/dev/shm') else tempfile.gettempdir()
        self.path = Path(tempfile.mkdtemp(prefix='phylib-seedwt-', dir=base))
        self.path.rmdir()
        rc, out = sh(['git', '-C', str(REPO), 'worktree', 'add', '--detach', str(self.path), 'HEAD'])
        if rc:
            raise RuntimeError(out)
        return self.path

    def __exit__(self, *a):
        sh(['git', '-C', str(REPO), 'worktree', 'remove', '--force', str(self.path)])
        shutil.rmtree(self.path, ignore_errors=True)
        sh(['git', '-C', str(REPO), 'worktree', 'prune'])


def run_tests(wt):
    rc, out = sh([PY, '-m', 'pytest', '-q', '-p', 'no:cacheprovider', '--continue-on-collection-errors'],
                 cwd=str(wt), env=dict(os.environ, PYTHONPATH=str(wt), PYTHONDONTWRITEBYTECODE='1'))
    m = re.search(r'(\d+) passed', out)
    failed = re.search(r'(\d+) failed', out)
    return int(m.group(1)) if m else 0, int(failed.group(1)) if failed else 0, out[-400:]


def run_demo(wt, demo_src, orig_root):
    text = Path(demo_src).read_text()
    if orig_root:
        text = text.replace(str(orig_root), str(wt))
    demo = Path(wt) / '_seed_demo.py'
    demo.write_text(text)
    try:
        rc, out = sh([PY, str(demo)], cwd=str(wt),
                     env=dict(os.environ, PYTHONPATH=str(wt), PYTHONDONTWRITEBYTECODE='1',
                              PYTHONHASHSEED='0'), timeout=600)
    finally:
        demo.unlink()
    return rc, out[-600:]


def do_import(src, pid, offset=0):
    src = Path(src)
    orig_root = src.parent
    results = []
    for n in (1, 2, 3):
        patch = src / ('patch%d.diff' % n)
        demo = src / ('demo%d.py' % n)
        note = src / ('note%d.txt' % n)
        if not patch.exists() or not demo.exists():
            continue
        name = '%s-%d' % (pid, n + offset)
        log = {}
        with Worktree() as wt:
            rc0, out0 = run_demo(wt, demo, orig_root)
            log['demo_clean_exit'] = rc0
            rc, out = sh(['git', 'apply', str(patch)], cwd=str(wt))
            if rc:
                print('%s: patch does not apply: %s' % (name, out[-300:]))
                continue
            changed = sh(['git', 'diff', '--stat'], cwd=str(wt))[1]
            passed, failed, tail = run_tests(wt)
            log['tests_passed_with_patch'] = passed
            log['tests_failed_with_patch'] = failed
            rc1, out1 = run_demo(wt, demo, orig_root)
            log['demo_patched_exit'] = rc1
            log['demo_patched_tail'] = out1[-300:]
        ok = rc0 == 0 and rc1 != 0 and passed == 52 and failed == 0
        print('%s: clean demo exit=%d, patched demo exit=%d, tests %d passed/%d failed -> %s' %
              (name, rc0, rc1, passed, failed, 'CONFIRMED' if ok else 'REJECTED'))
        if not ok:
            print('   ', out0[-200:] if rc0 else out1[-200:])
            continue
        d = SEEDED / name
        d.mkdir(parents=True, exist_ok=True)
        shutil.copy(patch, d / 'patch.diff')
        (d / 'demo.py').write_text(demo.read_text().replace(str(orig_root), '/path/to/worktree'))
        meta = dict(id=name, property=pid, origin='independent sub-agent given only the property '
                    'text and a scratch worktree',
                    needs_to_manifest=note.read_text().strip() if note.exists() else '',
                    files_changed=changed.strip().splitlines()[:-1],
                    confirmation=log,
                    confirmed_by='tools/seeded.py import: scratch worktree of /repo HEAD; clean demo '
                                 'exit 0; with patch: pinned suite 52 passed, demo exit != 0')
        (d / 'meta.json').write_text(json.dumps(meta, indent=1) + '\n')
        results.append(name)
    return results


def do_run(names, tier, keep_meta=True):
    out_rows = []
    for name in names:
        d = SEEDED / name
        meta = json.loads((d / 'meta.json').read_text())
        pid = meta['property']
        with Worktree() as wt:
            rc, out = sh(['git', 'apply', str(d / 'patch.diff')], cwd=str(wt))
            if rc:
                print('%s: patch no longer applies' % name)
                continue
            t0 = time.time()
            env = dict(os.environ, VERIF_REPO=str(wt), VERIF_REPLAY_DIR=str(wt / '_replays'),
                       PYTHONDONTWRITEBYTECODE='1')
            rc, out = sh([str(HERE / 'check'), pid, '--tier', tier, '--no-evidence'], cwd=str(HERE),
                         env=env, timeout=4 * 3600)
            dt = time.time() - t0
            viol = [l for l in out.splitlines() if l.startswith('VIOLATION')]
            detail = [l.strip() for l in out.splitlines() if l.startswith('  ')][:1]
            status = 'caught' if (rc == 1 and viol) else ('harness-error' if rc == 2 else 'missed')
            print('%-8s %-8s %-14s %5.0fs  %s' % (name, tier, status, dt,
                                                 (detail[0][:140] if detail else '')))
            meta.setdefault('check_results', {})[tier] = dict(
                status=status, wall_s=round(dt, 1), first_violation=(detail[0][:300] if detail else ''),
                verif_commit=sh(['git', '-C', str(HERE), 'rev-parse', '--short', 'HEAD'])[1].strip())
            out_rows.append((name, status))
        if keep_meta:
            (d / 'meta.json').write_text(json.dumps(meta, indent=1) + '\n')
    return out_rows


def main():
    ap = argparse.ArgumentParser()
    sub = ap.add_subparsers(dest='cmd')
    a = sub.add_parser('import')
    a.add_argument('src')
    a.add_argument('pid')
    a.add_argument('--offset', type=int, default=0)
    b = sub.add_parser('run')
    b.add_argument('names', nargs='*')
    b.add_argument('--tier', default='quick')
    args = ap.parse_args()
    if args.cmd == 'import':
        names = do_import(args.src, args.pid.upper(), args.offset)
        if names:
            do_run(names, 'quick')
    elif args.cmd == 'run':
        names = args.names or sorted(p.name for p in SEEDED.iterdir() if (p / 'meta.json').exists())
        rows = do_run(names, args.tier)
        missed = [n for n, s in rows if s != 'caught']
        print('%d/%d caught%s' % (len(rows) - len(missed), len(rows),
                                  (' ; not caught: ' + ' '.join(missed)) if missed else ''))
    else:
        ap.print_help()


if __name__ == '__main__':
    main()
