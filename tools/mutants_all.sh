#!/bin/sh
# Run the whole sensitivity catalogue (quick tier).  Not a registered check.
cd "$(dirname "$0")/.."
for i in 01 02 03 04 05 06 07 08 09 10 11 12 13 14 15 16 17 18 19 20; do
  tools/mutants.py C$i --jobs 4 | grep -v " caught "
done
