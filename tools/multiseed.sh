#!/bin/sh
# Soundness sweep: every check, quick tier, several seeds; prints only alarms.  Not a registered check.
cd "$(dirname "$0")/.."
for seed in ${SEEDS:-2 3 7 12345 99}; do
  for id in $(python3 -c "import json; print(' '.join(c['property_id'] for c in json.load(open('MANIFEST.json'))['checks']))"); do
    out=$(VERIF_SEED=$seed ./check $id --tier quick --no-evidence 2>&1); code=$?
    if [ $code -ne 0 ]; then echo "seed=$seed $id exit=$code"; echo "$out" | grep -E "VIOLATION|HARNESS|^  " | cut -c1-300; fi
  done
  echo "seed $seed done"
done
