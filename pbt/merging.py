# -*- coding: utf-8 -*-
"""Generated multi-probe merge inputs (shared by C11, C12, C14)."""

from pathlib import Path

import numpy as np
from hypothesis import strategies as st

from . import env, rec, datasets as D

TSV_FILES = ['cluster_Amplitude.tsv', 'cluster_ContamPct.tsv', 'cluster_KSLabel.tsv']


def tsv_content(fn, clusters, salt):
    """Deterministic {cluster id: value} for one probe's optional per-cluster file."""
    out = {}
    for c in sorted(set(int(x) for x in clusters)):
        if (c + salt) % 3 == 0:
            continue
        if 'KSLabel' in fn:
            out[c] = 'good' if (c + salt) % 2 else 'mua'
        elif 'Amplitude' in fn:
            out[c] = 1.5 * c + 0.25 + salt
        else:
            out[c] = float((c + salt) % 4) * 2.5        # exact zeros occur (ContamPct of 0.0)
    return out


def needs_f13_shift(pos_prev, pos_next):
    """The known finding F13: probe k has zero x-extent and probe k+1 starts at x == 0."""
    xs = [p[0] for p in pos_prev]
    return (max(xs) - min(xs) == 0) and min(p[0] for p in pos_next) == 0


@st.composite
def merge_case(draw, max_probes=4, exclude_f13=True, max_nc=6, max_ns=25, big_templates=False):
    k = draw(st.sampled_from([1, 2, 2, 3, 3, 3, 4][:3 + max_probes]))
    k = min(k, max_probes)
    probes = []
    first = None
    excluded = 0
    wm_kind = draw(st.sampled_from([None, None, None, 'lower', 'upper', 'diag', 'mixed']))
    mixed_tdtype = draw(st.booleans())      # float32 and float64 template files side by side
    for i in range(k):
        big = big_templates and draw(st.integers(0, 7)) == 0
        spec = draw(D.dataset_spec(merge_ready=True, dense=True, naming='ks', raw=False,
                                   max_nc=max_nc, max_nt=4, max_ns=max_ns,
                                   min_nt=33 if big else 2, big_nt=70 if big else None,
                                   row_vectors=True))
        if first is None:
            first = spec
        else:
            spec['nsw'] = first['nsw']
            spec['rate'] = first['rate']
            if not mixed_tdtype:
                spec['templates']['dtype'] = first['templates']['dtype']
        # the model behind the merged dataset squeezes: keep every dimension >= 2
        spec['wmi_file'] = bool(spec['wm'] and draw(st.booleans()))
        spec['wm_kind'] = wm_kind if wm_kind != 'mixed' else \
            draw(st.sampled_from([None, 'lower', 'upper', 'diag']))
        spec['tsv'] = {fn: draw(st.booleans()) for fn in TSV_FILES}
        spec['tsv_salt'] = draw(st.integers(0, 5))
        if exclude_f13 and probes and needs_f13_shift(probes[-1]['pos'], spec['pos']):
            # known finding F13 excluded by construction (counted by the property module)
            spec['pos'] = [[x + 7.0, y] for x, y in spec['pos']]
            excluded += 1
        probes.append(spec)
    if k >= 2 and draw(st.integers(0, 3)) == 0:
        # sessions recorded one after the other: every later probe starts after the first one's
        # last spike (the later ones still interleave among themselves)
        t_end = max(probes[0]['samples']) + 1 + draw(st.integers(0, 3))
        for p in probes[1:]:
            p['samples'] = [s + t_end for s in p['samples']]
            p['n_raw'] = p['n_raw'] + t_end
    # index tables can only be stacked if they have the same width in every probe
    wf = min(p['pcf']['nloc'] for p in probes)
    wt = min(p['tf']['nloc'] for p in probes)
    for p in probes:
        p['pcf']['nloc'] = wf
        p['pcf']['ind'] = [row[:wf] for row in p['pcf']['ind']]
        p['tf']['nloc'] = wt
        p['tf']['ind'] = [row[:wt] for row in p['tf']['ind']]
    # probe directory names: the order GIVEN defines probe k; it is not always the lexicographic one
    return {'probes': probes, 'f13_excluded': excluded,
            'dir_names': draw(st.sampled_from(['asc', 'desc', 'num', 'nested'])),
            'out_is_parent': draw(st.integers(0, 3)) == 0,
            'rel': draw(st.integers(0, 3)) == 0}


def build_probes(case, root):
    """Write every probe directory; returns the list of truths."""
    Ts = []
    for i, spec in enumerate(case['probes']):
        if case.get('dir_names') == 'nested':
            d = Path(root) / ('imec%d' % i) / 'ks2'         # <root>/imec0/ks2, <root>/imec1/ks2, ...
        else:
            d = Path(root) / rec.part_names(len(case['probes']), case.get('dir_names', 'asc'),
                                            stem='probe')[i]
        T = D.build(spec, d)
        T.tsv = {}
        for fn, present in spec.get('tsv', {}).items():
            if present:
                content = tsv_content(fn, T.spike_clusters, spec.get('tsv_salt', 0))
                field = fn[len('cluster_'):-len('.tsv')]
                with open(d / fn, 'w') as f:
                    f.write('cluster_id\t%s\n' % field)
                    for c, v in content.items():
                        f.write('%d\t%s\n' % (c, repr(v) if isinstance(v, float) else v))
                T.tsv[fn] = content
        Ts.append(T)
    return Ts


def expected_order(Ts):
    """Merged spike order: stable sort of the concatenation by time -> list of (probe, index)."""
    pairs = []
    for k, T in enumerate(Ts):
        for i, s in enumerate(T.samples):
            pairs.append((int(s), k, i))
    # Python's sort is stable; key = time only
    order = sorted(range(len(pairs)), key=lambda j: pairs[j][0])
    return [(pairs[j][1], pairs[j][2]) for j in order]


def out_dir_for(case, root, name='merged'):
    """Where the merged dataset goes: a sibling directory, or (session layout) the parent directory
    that contains the probe folders."""
    if case.get('out_is_parent') and name == 'merged' and case.get('dir_names') != 'nested':
        return Path(root)
    return Path(root) / name


import contextlib  # noqa: E402


@contextlib.contextmanager
def in_dir(d):
    """Run a block with d as the current directory (no-op for None)."""
    import os
    if d is None:
        yield
        return
    cwd = os.getcwd()
    os.chdir(str(d))
    try:
        yield
    finally:
        os.chdir(cwd)


def run_merge(Ts, out_dir, must_return, rel_root=None):
    from phylib.io.merge import Merger
    if rel_root is None:
        merger = must_return('Merger()', Merger, [T.dir for T in Ts], out_dir)
        model = must_return('Merger.merge()', merger.merge)
        return merger, model
    # probe folders (and the output folder) spelled relative to the session directory
    import os
    cwd = os.getcwd()
    os.chdir(str(rel_root))
    try:
        rel = lambda p: Path(os.path.relpath(str(p), str(rel_root)))  # noqa: E731
        merger = must_return('Merger()', Merger, [rel(T.dir) for T in Ts], rel(out_dir))
        model = must_return('Merger.merge()', merger.merge)
    finally:
        os.chdir(cwd)
    return merger, model
