# -*- coding: utf-8 -*-
"""Sensitivity catalogue: realistic small edits that still import and pass the pinned tests.
Each entry: (name, file relative to the repo root, exact old text (must occur once), new text)."""

A = 'phylib/io/array.py'
T = 'phylib/io/traces.py'
M = 'phylib/io/model.py'

MUTANTS = {}

MUTANTS['C16'] = [
    ('first-keep_end-plus1', A,
     "    keep_start = s_start\n    keep_end = s_end - overlap // 2\n    yield",
     "    keep_start = s_start\n    keep_end = s_end - overlap // 2 + 1\n    yield"),
    ('loop-keep_end-roundup', A,
     "        keep_start = keep_end\n        keep_end = s_end - overlap // 2\n        if s_start < s_end:",
     "        keep_start = keep_end\n        keep_end = s_end - (overlap + 1) // 2\n        keep_start = s_start + overlap // 2\n        if s_start < s_end:"),
    ('loop-start-ignores-overlap', A, "        s_start = s_end - overlap\n        s_end = s_start + chunk_size\n",
     "        s_start = s_end\n        s_end = s_start + chunk_size\n"),
    ('last-chunk-dropped', A, "    keep_end = s_end\n    if s_start < s_end:",
     "    keep_end = s_end\n    if s_start < s_end - 1:"),
    ('gcb-no-dup-suppression', T, "        if b and ch and ch[0] == b[-1]:\n            ch = ch[1:]\n",
     ""),
    ('gcb-no-final-bound', T, "        if b[-1] != n + arr_size:\n            b.append(n + arr_size)\n",
     ""),
    ('cbin-no-final-yield', T,
     "        yield reader.chunk_bounds[last_chunk], reader.chunk_bounds[last_chunk + 1]\n", ""),
    ('cbin-no-lookbehind', T,
     "            first_chunk = max(first_chunk - 1, 0)\n            last_chunk = max(first_chunk, last_chunk - 1)\n",
     "            last_chunk = max(first_chunk, last_chunk - 1)\n"),
    ('excerpt-step-no-max', A,
     "    step = max((n_samples - excerpt_size) // (n_excerpts - 1),\n               excerpt_size)",
     "    step = (n_samples - excerpt_size) // (n_excerpts - 1)"),
    ('excerpt-end-unclipped', A, "        end = min(start + excerpt_size, n_samples)",
     "        end = start + excerpt_size"),
    ('get-excerpts-one-plus1', A, "        return data[:excerpt_size]", "        return data[:excerpt_size + 1]"),
    ('part-bounds-no-zero', T, "    return [0] + list(np.cumsum([arr.shape[0] for arr in arrs]))",
     "    return list(np.cumsum([arr.shape[0] for arr in arrs]))"),
]

MUTANTS['C07'] = [
    ('unstable-sort', A, "rel_spikes = np.argsort(spike_clusters, kind='mergesort')",
     "rel_spikes = np.argsort(-spike_clusters.astype(np.int64), kind='mergesort')[::-1]"),
    ('diff-ge', A, "    idx = np.nonzero(diff > 0)[0]", "    idx = np.nonzero(diff > 1)[0]"),
    ('last-group-dropped', A, "    spikes_in_clusters[clusters[-1]] = abs_spikes[idx[-1]:]\n", ""),
    ('group-end-minus1', A, "abs_spikes[idx[i]:idx[i + 1]] for i in range(len(clusters) - 1)}",
     "abs_spikes[idx[i]:idx[i + 1] - 1] for i in range(len(clusters) - 1)}"),
    ('isin-first-only', A, "    return np.nonzero(np.isin(spike_clusters, clusters))[0]",
     "    return np.nonzero(spike_clusters == clusters[0])[0]"),
    ('unique-keeps-negatives', A, "    x = x[x >= 0]\n    bc = np.bincount(x)",
     "    x = np.abs(x)\n    bc = np.bincount(x)"),
    ('index_of-off-by-one', A, "        tmp[lookup] = np.arange(len(lookup))",
     "        tmp[lookup] = np.arange(1, len(lookup) + 1)"),
    ('index_of-sorted-lookup', A, "    lookup = np.asarray(lookup, dtype=np.int32)\n",
     "    lookup = np.sort(np.asarray(lookup, dtype=np.int32))\n"),
    ('grouped-mean-total', A, "    return t / spike_counts.reshape((-1,) + (1,) * (arr.ndim - 1))",
     "    return t / float(len(spike_clusters))"),
    ('flatten-no-unique', A,
     "    return np.unique(np.concatenate(list(per_cluster.values()))).astype(np.int64)",
     "    return np.concatenate(list(per_cluster.values())).astype(np.int64)"),
    ('spike_ids-ignored', A, "    abs_spikes = spike_ids[rel_spikes]", "    abs_spikes = rel_spikes"),
]

CCG = 'phylib/stats/ccg.py'
MUTANTS['C15'] = [
    ('mask-ge', CCG, "mask[:-shift][spike_diff_b > (winsize_bins // 2)] = False",
     "mask[:-shift][spike_diff_b >= (winsize_bins // 2)] = False"),
    ('binarize-round', CCG, "spike_diff_b = spike_diff // binsize",
     "spike_diff_b = (spike_diff + binsize // 2) // binsize"),
    ('relabel-ignores-order', CCG,
     "    if cluster_ids is None:\n        clusters = _unique(spike_clusters)\n    else:\n        clusters = _as_array(cluster_ids)\n    n_clusters",
     "    if cluster_ids is None:\n        clusters = _unique(spike_clusters)\n    else:\n        clusters = np.sort(_as_array(cluster_ids))\n    n_clusters"),
    ('increment-no-repeats', CCG, "    bbins = np.bincount(indices)\n    arr[:len(bbins)] += bbins\n",
     "    arr[indices] += 1\n"),
    ('symmetrize-no-transpose', CCG, "    sym = np.transpose(sym, (1, 0, 2))\n", ""),
    ('centre-sum', CCG, "np.maximum(correlograms[..., 0],\n                                      correlograms[..., 0].T)",
     "np.add(correlograms[..., 0],\n                                      correlograms[..., 0].T)"),
    ('firing-rate-inverse', CCG, "return bc * np.c_[bc] * (bin_size / (duration or 1.))",
     "return bc * np.c_[bc] * ((duration or 1.) / bin_size)"),
    ('winsize-round', CCG, "winsize_bins = 2 * int(.5 * window_size / bin_size) + 1",
     "winsize_bins = 2 * int(round(.5 * window_size / bin_size)) + 1"),
    ('firing-rate-no-pad', CCG, "        bc = np.concatenate((bc, np.zeros(n, dtype=bc.dtype)))",
     "        bc = np.concatenate((np.zeros(n, dtype=bc.dtype), bc))"),
]

MUTANTS['C17'] = [
    ('searchsorted-left', A, "    ind = np.searchsorted(chunks_kept, times, side='right')",
     "    ind = np.searchsorted(chunks_kept, times, side='left')"),
    ('parity-even', A, "    return ind % 2 == 1", "    return ind % 2 == 0"),
    ('stride-floor', A, "max(1, int(ceil(n_chunks / n_chunks_kept)))",
     "max(1, int(floor(n_chunks / n_chunks_kept)))"),
    ('choice-with-replacement', A, "np.random.choice(spike_ids, n_spk_clu, replace=False)",
     "np.random.choice(spike_ids, n_spk_clu, replace=True)"),
    ('count-ge', A, "n_spk_clu > 0 and len(spike_ids) > n_spk_clu:",
     "n_spk_clu > 0 and len(spike_ids) >= n_spk_clu + 2:"),
    ('chunk-filter-after-count', A,
     "            if subset_chunks:\n                spike_ids = spike_ids[_times_in_chunks(t, self.chunks_kept)]\n",
     "            if subset_chunks and n_spk_clu is None:\n                spike_ids = spike_ids[_times_in_chunks(t, self.chunks_kept)]\n"),
    ('subset-spikes-ignored-when-few', A,
     "            if subset_spikes is not None:\n                spike_ids = np.intersect1d(spike_ids, subset_spikes)",
     "            if subset_spikes is not None and len(spike_ids) > 2:\n                spike_ids = np.intersect1d(spike_ids, subset_spikes)"),
    ('kept-chunk-one-bound', A, "            self.chunks_kept.extend(chunk_bounds[i:i + 2])",
     "            self.chunks_kept.extend(chunk_bounds[i:i + 2] if i else chunk_bounds[i + 1:i + 3])"),
    ('first-n-instead-of-count', A, "                spike_ids = np.random.choice(spike_ids, n_spk_clu, replace=False)",
     "                spike_ids = spike_ids[:n_spk_clu + (len(spike_ids) > 7)]"),
]
