# -*- coding: utf-8 -*-
"""Sensitivity catalogue: realistic small edits that still import and pass the pinned tests.
Each entry: (name, file relative to the repo root, exact old text (must occur once), new text)."""

A = 'phylib/io/array.py'
T = 'phylib/io/traces.py'
M = 'phylib/io/model.py'

MUTANTS = {}

MUTANTS['C16'] = [
    ('first-keep_end-plus1', A,
     "    keep_start = s_start\n    keep_end = s_end - overlap // 2\n    yield",
     "    keep_start = s_start\n    keep_end = s_end - overlap // 2 + 1\n    yield"),
    ('loop-keep_end-roundup', A,
     "        keep_start = keep_end\n        keep_end = s_end - overlap // 2\n        if s_start < s_end:",
     "        keep_start = keep_end\n        keep_end = s_end - (overlap + 1) // 2\n        keep_start = s_start + overlap // 2\n        if s_start < s_end:"),
    ('loop-start-ignores-overlap', A, "        s_start = s_end - overlap\n        s_end = s_start + chunk_size\n",
     "        s_start = s_end\n        s_end = s_start + chunk_size\n"),
    ('last-chunk-dropped', A, "    keep_end = s_end\n    if s_start < s_end:",
     "    keep_end = s_end\n    if s_start < s_end - 1:"),
    ('gcb-no-dup-suppression', T, "        if b and ch and ch[0] == b[-1]:\n            ch = ch[1:]\n",
     ""),
    ('gcb-no-final-bound', T, "        if b[-1] != n + arr_size:\n            b.append(n + arr_size)\n",
     ""),
    ('cbin-no-final-yield', T,
     "        yield reader.chunk_bounds[last_chunk], reader.chunk_bounds[last_chunk + 1]\n", ""),
    ('cbin-no-lookbehind', T,
     "            first_chunk = max(first_chunk - 1, 0)\n            last_chunk = max(first_chunk, last_chunk - 1)\n",
     "            last_chunk = max(first_chunk, last_chunk - 1)\n"),
    ('excerpt-step-no-max', A,
     "    step = max((n_samples - excerpt_size) // (n_excerpts - 1),\n               excerpt_size)",
     "    step = (n_samples - excerpt_size) // (n_excerpts - 1)"),
    ('excerpt-end-unclipped', A, "        end = min(start + excerpt_size, n_samples)",
     "        end = start + excerpt_size"),
    ('get-excerpts-one-plus1', A, "        return data[:excerpt_size]", "        return data[:excerpt_size + 1]"),
    ('part-bounds-no-zero', T, "    return [0] + list(np.cumsum([arr.shape[0] for arr in arrs]))",
     "    return list(np.cumsum([arr.shape[0] for arr in arrs]))"),
]
