# -*- coding: utf-8 -*-
"""Reference implementations written from the property statements (never call the code under
test, never reuse phylib helpers; np.dot is the only linear algebra used)."""

import numpy as np


def ptp(x, axis=0):
    return np.max(x, axis=axis) - np.min(x, axis=axis)


def unwhitened(T, t, wmi, unwhiten=True):
    """Template t on all channels, float64."""
    W = np.asarray(T.templates[t], dtype=np.float64)
    return W @ wmi if unwhiten else W


class DenseRecord(object):
    """Oracle for the automatic channel selection of a dense template (C05)."""

    def __init__(self, U, pos, shanks, ncc, thr, amp_dtype=np.float32):
        # The implementation computes amplitudes on the float32 un-whitened template; decisions
        # get a don't-care band wide enough for that rounding.
        self.U = U
        self.amp = ptp(U, axis=0)
        self.max = float(np.max(self.amp))
        self.band = 1e-5 * max(self.max, 1e-30) + 1e-5 * float(np.max(np.abs(U)))
        nc = U.shape[1]
        self.peaks = [c for c in range(nc) if self.amp[c] >= self.max - self.band]
        thr = 0.0 if thr is None else float(thr)
        self.cut = thr * self.max
        self.pos = pos
        self.shanks = shanks
        self.ncc = ncc

    def sets_for_peak(self, peak):
        """(must, may, tie, slots) for a given admissible peak channel."""
        nc = self.U.shape[1]
        d = (self.pos[:, 0] - self.pos[peak, 0]) ** 2 + (self.pos[:, 1] - self.pos[peak, 1]) ** 2
        k = min(self.ncc, nc) if self.ncc else nc
        dk = np.sort(d)[k - 1]
        closer = set(np.nonzero(d < dk)[0].tolist())
        tie = set(np.nonzero(d == dk)[0].tolist())
        slots = k - len(closer)
        must_n = closer | (tie if len(tie) == slots else set())
        may_n = closer | tie
        if self.shanks is not None:
            on = set(np.nonzero(self.shanks == self.shanks[peak])[0].tolist())
            must_n &= on
            may_n &= on
        if self.cut == 0:
            # every amplitude (>= 0) reaches a zero threshold: no rounding can change that, so
            # channels on which the template is exactly zero are listed as well
            must = set(must_n)
        else:
            must = set(c for c in must_n if self.amp[c] >= self.cut + self.band)
        may = set(c for c in may_n if self.amp[c] >= self.cut - self.band)
        must.add(peak)      # thr <= 1, so the peak itself always qualifies
        may.add(peak)
        return must, may, tie, slots


def sparse_kept(W, cols):
    """Stored channels minus unused (-1) and signal-free columns; returns column indices and a
    set of don't-care column indices (within a factor 2 of the 1e-6 relative threshold)."""
    mx = np.abs(W).max(axis=0)
    top = mx.max()
    keep, dontcare = [], []
    for j, c in enumerate(cols):
        if c == -1:
            continue
        if mx[j] > 2e-6 * top:
            keep.append(j)
        elif mx[j] > 0.5e-6 * top:
            dontcare.append(j)
    return keep, dontcare


def dominant_templates(spike_templates, spike_ids):
    """All templates with maximal spike count among the given spikes."""
    st = [int(spike_templates[i]) for i in spike_ids]
    counts = {}
    for t in st:
        counts[t] = counts.get(t, 0) + 1
    m = max(counts.values())
    return sorted(t for t, n in counts.items() if n == m), counts
