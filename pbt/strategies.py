# -*- coding: utf-8 -*-
"""Shared Hypothesis strategies and JSON encodings for layouts and index expressions."""

import itertools
import os
from pathlib import Path

import numpy as np
from hypothesis import strategies as st

from . import env, rec


# ---------------------------------------------------------------------------------------------
# index expressions (JSON <-> Python)
# ---------------------------------------------------------------------------------------------

def to_rows(e):
    t = e['t']
    if t == 'int':
        return np.int64(e['v']) if e.get('np') else int(e['v'])
    if t == 'slice':
        return slice(e['a'], e['b'], e.get('step'))
    if t == 'list':
        kind = e.get('as', 'list')
        return list(e['v']) if kind == 'list' else np.array(e['v'], dtype=kind)
    raise ValueError(e)


def to_cols(c):
    if c is None:
        return None
    t = c['t']
    if t == 'slice':
        return slice(c['a'], c['b'])
    if t == 'rev':
        return slice(None, None, -1)
    if t in ('list', 'perm'):
        if c.get('as', 'list') != 'list':
            return np.array(c['v'], dtype=c['as'])      # the caller's own index array
        return list(c['v'])
    if t == 'int':
        return int(c['v'])
    raise ValueError(c)


def numpy_rows(A, e):
    """What NumPy returns on the concatenated array (an int selects one row, 2-D)."""
    if e['t'] == 'int':
        return A[[int(e['v'])]]
    if e['t'] == 'slice':
        return A[slice(e['a'], e['b'], e.get('step'))]
    return A[np.array(e['v'], dtype=np.int64)]


def rows_touched(n, e):
    if e['t'] == 'int':
        return [e['v'] % n]
    if e['t'] == 'slice':
        return list(range(*slice(e['a'], e['b'], e.get('step')).indices(n)))
    return list(e['v'])


def all_row_exprs(n):
    """Every supported row expression over a first axis of length n."""
    k = 0
    for i in range(-n, n):
        k += 1
        yield {'t': 'int', 'v': i, 'np': bool(k % 2)}
    bounds = [None] + list(range(-n, n + 1))
    for a in bounds:
        for b in bounds:
            if len(range(*slice(a, b).indices(n))) >= 1:
                k += 1
                yield {'t': 'slice', 'a': a, 'b': b, 'step': 1 if k % 3 == 0 else None}
    kinds = ['list', 'int64', 'int32', 'uint32', 'uint64']
    for r in range(1, n + 1):
        for sub in itertools.combinations(range(n), r):
            k += 1
            yield {'t': 'list', 'v': list(sub), 'as': kinds[k % 5]}


def all_col_selectors(nch):
    assert nch >= 3
    return [None, {'t': 'slice', 'a': 1, 'b': nch}, {'t': 'rev'},
            {'t': 'list', 'v': [nch - 1, 0]},
            {'t': 'perm', 'v': list(range(1, nch)) + [0]},
            {'t': 'list', 'v': [0, -1, -nch + 1]},      # negative entries count from the end
            {'t': 'int', 'v': 1}]


def compositions(n):
    """All compositions of n into parts >= 1."""
    for cuts in itertools.product([0, 1], repeat=n - 1):
        parts = []
        cur = 1
        for c in cuts:
            if c:
                parts.append(cur)
                cur = 1
            else:
                cur += 1
        parts.append(cur)
        yield parts


@st.composite
def composition(draw, n, max_parts=5):
    k = draw(st.integers(1, min(max_parts, n)))
    if k == 1:
        return [n]
    cuts = sorted(draw(st.lists(st.integers(1, n - 1), min_size=k - 1, max_size=k - 1,
                                unique=True)))
    edges = [0] + cuts + [n]
    return [b - a for a, b in zip(edges, edges[1:])]


@st.composite
def row_expr(draw, n, bounds=(), allow_list=True):
    """One supported row expression; bounds are drawn on/near part boundaries half of the time."""
    hot = sorted(set([0, n] + [b + d for b in bounds for d in (-1, 0, 1) if 0 <= b + d <= n]))
    kind = draw(st.sampled_from(['int', 'slice', 'slice', 'list'] if allow_list
                                else ['int', 'slice', 'slice']))
    if kind == 'int':
        i = draw(st.sampled_from([h for h in hot if h < n] or [0]) | st.integers(0, n - 1))
        if draw(st.booleans()):
            i -= n
        return {'t': 'int', 'v': i, 'np': draw(st.booleans())}
    if kind == 'slice':
        pos = st.sampled_from(hot) | st.integers(0, n)
        a = draw(pos)
        b = draw(pos)
        if a == b:
            if b < n:
                b += 1
            else:
                a -= 1
        a, b = min(a, b), max(a, b)

        def render(x, is_start):
            opts = [x]
            if x < n:
                opts.append(x - n)      # equivalent negative bound (x - n in [-n, -1])
            elif not is_start:
                opts.append(None)
            if is_start and x == 0:
                opts.extend([None, -n])
            return draw(st.sampled_from(opts))
        ra, rb = render(a, True), render(b, False)
        if rb == 0:
            rb = None if b == n else b
        e = {'t': 'slice', 'a': ra, 'b': rb, 'step': draw(st.sampled_from([None, 1]))}
        assert list(range(*slice(e['a'], e['b']).indices(n))) == list(range(a, b)), (e, a, b, n)
        return e
    size = draw(st.integers(1, min(n, 8)))
    v = sorted(draw(st.lists(st.sampled_from([h for h in hot if h < n] or [0]) |
                             st.integers(0, n - 1), min_size=size, max_size=size, unique=True)))
    return {'t': 'list', 'v': v, 'as': draw(st.sampled_from(['list', 'int64', 'int32', 'uint32',
                                                              'uint64']))}


@st.composite
def col_selector(draw, nch, allow_int=True):
    kind = draw(st.sampled_from(['none', 'none', 'slice', 'rev', 'list', 'list', 'perm'] +
                                (['int'] if allow_int else [])))
    if kind == 'none':
        return None
    if kind == 'int':
        # one channel: the result loses its second axis, as in NumPy
        j = draw(st.integers(0, nch - 1))
        return {'t': 'int', 'v': j - nch if draw(st.booleans()) else j}
    if kind == 'slice':
        a = draw(st.integers(0, nch - 1))
        b = draw(st.integers(a + 1, nch))
        return {'t': 'slice', 'a': draw(st.sampled_from([a, None] if a == 0 else [a])),
                'b': draw(st.sampled_from([b, None] if b == nch else [b]))}
    if kind == 'rev':
        return {'t': 'rev'}
    if kind == 'perm':
        return {'t': 'perm', 'v': list(draw(st.permutations(list(range(nch)))))}
    k = draw(st.integers(1, nch))
    v = draw(st.lists(st.integers(0, nch - 1), min_size=k, max_size=k, unique=True))
    if draw(st.booleans()):
        # NumPy semantics: negative entries count from the last channel
        v = [j - nch if draw(st.booleans()) else j for j in v]
    return {'t': 'list', 'v': v, 'as': draw(st.sampled_from(['list', 'list', 'int64', 'int32']))}


# ---------------------------------------------------------------------------------------------
# layouts: how a recording is stored
# ---------------------------------------------------------------------------------------------

SAMPLE_DTYPES = ['int16', 'int32', 'uint8', 'float32', 'float64']
BIG_ENDIAN_DTYPES = ['>i2', '>f4']      # non-native byte order (not offered to the cbin codec)


@st.composite
def layout(draw, max_n=64, max_parts=5, backends=('flat', 'flat', 'npy', 'array', 'cbin'),
           dtypes=SAMPLE_DTYPES, min_n=1, big_endian=False):
    n = draw(st.integers(min_n, 12) | st.integers(min_n, max_n))
    backend = draw(st.sampled_from(list(backends)))
    dts = list(dtypes) + (BIG_ENDIAN_DTYPES if (backend != 'cbin' and big_endian) else [])
    lay = {'n': n, 'nch': draw(st.integers(1, 5)), 'dtype': draw(st.sampled_from(dts)),
           'backend': backend, 'salt': draw(st.integers(0, 50))}
    if backend == 'flat':
        lay['parts'] = draw(composition(n, max_parts))
        lay['offset'] = draw(st.sampled_from([0, 0, 1, 2, 7, 16, 31]))
        lay['ext'] = draw(st.sampled_from(['.dat', '.bin', '.raw', 'mixed']))
        lay['names'] = draw(st.sampled_from(['asc', 'desc', 'num', 'samebase']))
    else:
        lay['parts'] = [n]
        lay['offset'] = 0
    # chunk length in samples (1 .. beyond n)
    lay['chunk'] = draw(st.integers(1, n + 3))
    if backend == 'cbin':
        lay['n_threads'] = draw(st.sampled_from([1, 2, 3]))
        lay['open'] = draw(st.sampled_from(['path', 'reader']))
    elif lay['dtype'] in ('float32', 'float64', '>f4') and draw(st.integers(0, 2)) == 0:
        lay['nonfinite'] = True         # NaN / +-inf samples (not offered to the integer codec)
    if backend != 'array' and draw(st.integers(0, 3)) == 0:
        lay['relpath'] = True           # opened by relative name, then the process changes directory
    if backend == 'npy' and draw(st.booleans()):
        lay['fortran'] = True
    if backend in ('npy', 'array') and draw(st.integers(0, 2)) == 0:
        lay['params_kw'] = draw(st.sampled_from(['int16', 'float32', lay['dtype'].lstrip('<>=')
                                                 if lay['dtype'][0] not in '<>' else 'int16']))
    return lay


class OpenReader(object):
    """Context manager: materialise a layout in a scratch dir and open the phylib reader."""

    def __init__(self, lay, must_return, dirpath=None):
        self.lay = lay
        self.must_return = must_return
        # an existing directory to (re)write the recording into: the files are written aside and
        # moved over the old ones, as a re-export or a copy of newer data does
        self.dirpath = dirpath

    @staticmethod
    def _kw(lay):
        """The keyword route of the model: a params file always declares n_channels_dat, dtype
        and offset, also for .npy / in-memory data, where the stored array is what counts."""
        if not lay.get('params_kw'):
            return {}
        return dict(n_channels_dat=lay['nch'], dtype=lay['params_kw'], offset=0)

    def __enter__(self):
        from phylib.io.traces import get_ephys_reader
        lay = self.lay
        self._cm = env.scratch()
        d = self._cm.__enter__()
        final = None
        if self.dirpath is not None:
            final, d = Path(self.dirpath), d / 'aside'
            d.mkdir()
        self.dir = final or d
        self.A = rec.values(lay['n'], lay['nch'], lay['dtype'], lay.get('salt', 0),
                            nonfinite=lay.get('nonfinite', False))
        self.mt = None
        self._cwd = None
        rel = bool(lay.get('relpath')) and lay['backend'] != 'array'

        def arg_of(p):
            # relative spelling: the process sits in the recording's directory while opening
            return type(p)(os.path.relpath(str(p), str(self.dir))) if rel else p
        try:
            b = lay['backend']
            if rel:
                self._cwd = os.getcwd()
                os.chdir(str(self.dir))
            if b == 'cbin':
                self.sample_rate = 1.0
                path = rec.write_cbin(d, self.A, sample_rate=1.0, chunk_duration=lay['chunk'])
                if final:
                    for q in (path, path.with_suffix('.ch')):
                        os.replace(q, final / q.name)
                    path = final / path.name
                if lay.get('open') == 'reader':
                    import mtscomp
                    self.mt = mtscomp.Reader(n_threads=lay.get('n_threads', 1))
                    self.mt.open(arg_of(path))
                    self.reader = self.must_return('get_ephys_reader', get_ephys_reader, self.mt)
                else:
                    self.reader = self.must_return('get_ephys_reader', get_ephys_reader,
                                                   arg_of(path))
                    self.mt = getattr(self.reader, 'reader', None)
            else:
                self.sample_rate = rec.rate_for_chunk(lay['chunk'])
                if b == 'array':
                    self.reader = self.must_return('get_ephys_reader', get_ephys_reader, self.A,
                                                   sample_rate=self.sample_rate, **self._kw(lay))
                elif b == 'npy':
                    p = d / 'raw.npy'
                    # (a channel-major buffer saved transposed is a Fortran-ordered .npy file)
                    np.save(p, np.asfortranarray(self.A) if lay.get('fortran') else self.A)
                    if final:
                        os.replace(p, final / p.name)
                        p = final / p.name
                    # (a one-element list of paths is accepted as well)
                    self.reader = self.must_return(
                        'get_ephys_reader', get_ephys_reader,
                        [arg_of(p)] if lay.get('salt', 0) % 3 == 0 else arg_of(p),
                        sample_rate=self.sample_rate, **self._kw(lay))
                else:
                    paths = rec.write_flat(d, self.A, lay['parts'], lay['offset'],
                                           ext=lay.get('ext', '.dat'), order=lay.get('names', 'asc'))
                    if final:
                        moved = []
                        for p in paths:
                            q = final / p.relative_to(d)
                            q.parent.mkdir(parents=True, exist_ok=True)
                            os.replace(p, q)
                            moved.append(q)
                        paths = moved
                    paths_given = [arg_of(p) for p in paths]
                    arg = paths_given if (len(paths) > 1 or lay.get('salt', 0) % 2) \
                        else paths_given[0]
                    self.reader = self.must_return(
                        'get_ephys_reader', get_ephys_reader, arg, n_channels=lay['nch'],
                        dtype=np.dtype(lay['dtype']), offset=lay['offset'],
                        sample_rate=self.sample_rate)
            if rel:
                # ... and moves on afterwards, into a directory that holds equally named files of
                # another session
                decoy = Path(self.dir) / 'other_session'
                decoy.mkdir(exist_ok=True)
                if b == 'npy':
                    np.save(decoy / 'raw.npy', self.A[::-1] + 1)
                elif b == 'flat':
                    rec.write_flat(decoy, (self.A[::-1] + 1).astype(self.A.dtype), lay['parts'],
                                   lay['offset'], ext=lay.get('ext', '.dat'),
                                   order=lay.get('names', 'asc'))
                os.chdir(str(decoy))
        except BaseException:
            if self._cwd is not None:
                os.chdir(self._cwd)
            self._cm.__exit__(None, None, None)
            raise
        return self

    def __exit__(self, *exc):
        r = getattr(self, 'reader', None)
        try:
            if self.dirpath is not None:
                r = None    # maps of replaced files are left to the garbage collector
            for m in getattr(r, '_mmaps', []) or []:
                m._mmap.close()
            arr = getattr(r, '_arr', None)
            if isinstance(arr, np.memmap):
                arr._mmap.close()
            if self.mt is not None:
                try:
                    self.mt.close()
                except Exception:
                    pass
        finally:
            if self._cwd is not None:
                os.chdir(self._cwd)
            self._cm.__exit__(None, None, None)
        return False
