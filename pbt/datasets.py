# -*- coding: utf-8 -*-
"""Generated KiloSort/phy and ALF dataset directories.

A *spec* is a plain JSON dict drawn by `dataset_spec()`.  `build(spec, dir)` writes the directory
and returns the *truth*: the arrays exactly as they were stored (before np.save), which is what
oracles read - never the model under test.  Numeric content (templates, whitening, features,
amplitudes) is a deterministic function of seeds contained in the spec.
"""

from pathlib import Path
from types import SimpleNamespace

import os

import numpy as np
from hypothesis import strategies as st

from . import env, rec  # noqa: F401

ID_DTYPES = ['uint32', 'int32', 'int64']
TIME_DTYPES = ['uint64', 'int64', 'uint32', 'int32']
RATES = [100.0, 2000.0, 30000.0, 29999.954, 24414.0625]

ALF_NAMES = {
    'spike_templates.npy': 'spikes.templates.npy',
    'spike_clusters.npy': 'spikes.clusters.npy',
    'amplitudes.npy': 'spikes.amps.npy',
    'channel_map.npy': 'channels.rawInd.npy',
    'channel_positions.npy': 'channels.localCoordinates.npy',
    'channel_probe.npy': 'channels.probes.npy',
    'channel_shanks.npy': 'channels.shanks.npy',
    'templates.npy': 'templates.waveforms.npy',
    'template_ind.npy': 'templates.waveformsChannels.npy',
}


# ---------------------------------------------------------------------------------------------
# curation histories
# ---------------------------------------------------------------------------------------------

def apply_curation(spike_templates, ops):
    """Apply a generated sequence of merge / split / reassign / skip operations."""
    sc = [int(x) for x in spike_templates]
    nxt = max(sc) + 1
    for op in ops:
        present = sorted(set(sc))
        k = op['op']
        if k == 'merge':
            a = present[op['a'] % len(present)]
            b = present[op['b'] % len(present)]
            if a == b:
                continue
            sc = [nxt if c in (a, b) else c for c in sc]
            nxt += 1
        elif k == 'split':
            a = present[op['a'] % len(present)]
            idx = [i for i, c in enumerate(sc) if c == a]
            if len(idx) < 2:
                continue
            cut = 1 + op['cut'] % (len(idx) - 1)
            chosen = idx[::2][:cut] if op.get('interleave') else idx[:cut]
            for i in chosen:
                sc[i] = nxt
            nxt += 1
        elif k == 'reassign':
            i = op['i'] % len(sc)
            if op.get('new'):
                sc[i] = nxt
                nxt += 1
            else:
                sc[i] = present[op['to'] % len(present)]
        elif k == 'skip':
            nxt += 1 + op.get('n', 0) % 2
    return sc


_merge_op = st.fixed_dictionaries({'op': st.just('merge'), 'a': st.integers(0, 9),
                                   'b': st.integers(0, 9)})
_curation_op = st.one_of(
    _merge_op, _merge_op,
    st.fixed_dictionaries({'op': st.just('split'), 'a': st.integers(0, 9), 'cut': st.integers(0, 9),
                           'interleave': st.booleans()}),
    st.fixed_dictionaries({'op': st.just('reassign'), 'i': st.integers(0, 99),
                           'to': st.integers(0, 9), 'new': st.booleans()}),
    st.fixed_dictionaries({'op': st.just('skip'), 'n': st.integers(0, 1)}),
)


# ---------------------------------------------------------------------------------------------
# spec strategy
# ---------------------------------------------------------------------------------------------

_present = st.sampled_from([True, False])   # Hypothesis favours the first element: files present


def _opt(draw, forced, strategy):
    return forced if forced is not None else draw(strategy)


@st.composite
def positions(draw, nc):
    kind = draw(st.sampled_from(['generic', 'grid', 'column']))
    if kind == 'grid':
        ncols = draw(st.integers(1, 3))
        pos = [[10.0 * (i % ncols), 20.0 * (i // ncols)] for i in range(nc)]
    elif kind == 'column':
        pos = [[0.0, 15.0 * i] for i in range(nc)]
    else:
        cells = draw(st.lists(st.tuples(st.integers(0, 6), st.integers(0, 12)), min_size=nc,
                              max_size=nc, unique=True))
        pos = [[7.0 * x, 11.0 * y] for x, y in cells]
    perm = draw(st.permutations(list(range(nc))))
    return [pos[i] for i in perm]


SYMLINKABLE = ['spike_clusters.npy', 'spike_templates.npy', 'templates.npy', 'amplitudes.npy',
               'spike_times.npy', 'channel_positions.npy', 'pc_features.npy', 'whitening_mat.npy',
               'spikes.clusters.npy', 'spikes.templates.npy', 'templates.waveforms.npy']


@st.composite
def dataset_spec(draw, naming=None, dense=None, raw=None, curated=None, features=None,
                 tfeatures=None, whitening=None, amplitudes=None, clusters_file=None,
                 min_nc=2, max_nc=10, max_nt=6, max_ns=40, shanks=None, nan=False,
                 merge_ready=False, raw_backends=('flat', 'flat', 'npy', 'cbin'),
                 full_feature_rows=None, int_templates=None, probe_labels=False, min_nt=2,
                 big_nt=None, scales=None, footprints=False, raw_parent=False, symlinks=False,
                 row_vectors=False):
    ns = draw(st.integers(2, 12) | st.integers(2, max_ns))
    nt = draw(st.integers(min_nt, big_nt or max_nt))
    nc = draw(st.integers(min_nc, max_nc))
    nsw = draw(st.integers(2, 8))
    n_raw = draw(st.integers(max(8, nsw), 120))
    spec = {'ns': ns, 'nt': nt, 'nc': nc, 'nsw': nsw, 'n_raw': n_raw,
            'rate': draw(st.sampled_from(RATES)),
            'naming': _opt(draw, naming, st.sampled_from(['ks', 'ks', 'alf'])),
            'col2d': draw(st.booleans()),
            'time_dtype': draw(st.sampled_from(TIME_DTYPES)),
            'tmpl_dtype': draw(st.sampled_from(ID_DTYPES)),
            'clu_dtype': draw(st.sampled_from(ID_DTYPES)),
            'seed': draw(st.integers(0, 10 ** 6))}
    if symlinks and draw(st.integers(0, 3)) == 0:
        # files kept elsewhere (annexed / shared storage) and linked into the dataset directory
        spec['symlinks'] = draw(st.lists(st.sampled_from(SYMLINKABLE), min_size=1, max_size=4,
                                         unique=True))
    # spikes
    spec['samples'] = sorted(draw(st.lists(st.integers(0, n_raw - 1), min_size=ns, max_size=ns)))
    nused = draw(st.sampled_from([1] + list(range(2, nt + 1)) * 3))
    used = draw(st.lists(st.integers(0, nt - 1), min_size=nused, max_size=nused, unique=True))
    spec['spike_templates'] = [used[i % len(used)] for i in
                               draw(st.lists(st.integers(0, 50), min_size=ns, max_size=ns))]
    cur = _opt(draw, curated, st.booleans())
    spec['curation'] = draw(st.lists(_curation_op, min_size=1, max_size=6)) if cur else None
    if spec['naming'] == 'alf' or merge_ready:
        spec['clusters_file'] = True
    else:
        spec['clusters_file'] = True if cur else _opt(draw, clusters_file, st.booleans())
    spec['amplitudes'] = True if merge_ready else _opt(draw, amplitudes, _present)
    spec['alf_samples_file'] = draw(st.booleans())
    # channels
    ncd = nc + draw(st.sampled_from([0, 0, 1, 3]))
    spec['ncd'] = ncd
    spec['chmap'] = list(draw(st.permutations(list(range(ncd)))))[:nc]
    if draw(st.booleans()):
        spec['chmap'] = sorted(spec['chmap'])
    spec['chmap_dtype'] = draw(st.sampled_from(ID_DTYPES))
    if row_vectors and draw(st.integers(0, 3)) == 0:
        # per-channel vectors stored as (1, n) rows (the merger squeezes what it loads; the ALF
        # exporter copies such files as they are, so this is not offered to C13 / C14 sources)
        spec['row_vectors'] = draw(st.lists(st.sampled_from(
            ['channel_map.npy', 'channel_shanks.npy', 'channel_probe.npy']), min_size=1,
            max_size=3, unique=True))
    spec['pos'] = draw(positions(nc))
    # positions are stored as floats (integer storage makes the merger and the ALF exporter fail
    # on the unchanged tree: 'int_array += float', so integer files are not an accepted input)
    spec['pos_dtype'] = draw(st.sampled_from(['float64', 'float64', 'float32']))
    sh = _opt(draw, shanks, st.booleans())
    spec['shanks'] = draw(st.lists(st.integers(0, 2), min_size=nc, max_size=nc)) if sh else None
    spec['probes_file'] = draw(st.booleans()) and not merge_ready
    if spec['probes_file'] and probe_labels and draw(st.booleans()):
        # probe labels with gaps / not starting at 0
        spec['probes'] = draw(st.lists(st.sampled_from([0, 2, 5]), min_size=nc, max_size=nc))
    # templates
    is_dense = _opt(draw, dense, st.sampled_from([True, True, False]))
    t = {'dense': is_dense, 'dtype': draw(st.sampled_from(['float32', 'float64'])),
         'int': _opt(draw, int_templates, st.booleans()),
         'nan_template': bool(nan and draw(st.integers(0, 3)) == 0),
         'nan_kind': draw(st.sampled_from(['all', 'every-channel-once', 'one-channel']))}
    if not is_dense:
        nloc = draw(st.integers(2, nc))
        cols = []
        zero_cols = []
        for _ in range(nt):
            row = list(draw(st.permutations(list(range(nc)))))[:nloc]
            nminus = draw(st.integers(0, nloc - 1))
            for j in draw(st.lists(st.integers(0, nloc - 1), min_size=nminus, max_size=nminus,
                                   unique=True)):
                row[j] = -1
            if all(c == -1 for c in row):
                row[0] = 0
            cols.append(row)
            zero_cols.append(draw(st.lists(st.integers(0, nloc - 1), max_size=nloc - 1,
                                           unique=True)))
        t.update(nloc=nloc, cols=cols, zero_cols=zero_cols,
                 cols_dtype=draw(st.sampled_from(['int32', 'int64'])))
        if scales:
            # stored channels at the edge of the footprint: 1e-4 of the usual size, not zero
            t['faint_cols'] = [draw(st.lists(st.integers(0, nloc - 1), max_size=nloc - 1,
                                             unique=True)) for _ in range(nt)]
    if footprints and is_dense and draw(st.booleans()):
        # sorter output: each template is exactly zero outside a footprint of a few channels
        t['footprint'] = []
        for _ in range(nt):
            a = draw(st.integers(0, nc - 1))
            t['footprint'].append(list(range(a, min(nc, a + draw(st.integers(1, nc))))))
    if scales and not t['int']:
        # physical units of the stored waveforms (arbitrary units, volts, microvolts ...)
        t['scale'] = draw(st.sampled_from(list(scales)))
    # KS2 also writes templates_ind.npy (with an s), which the loader deliberately ignores
    t['ks2_templates_ind'] = bool(is_dense and draw(st.booleans()))
    spec['templates'] = t
    w = _opt(draw, whitening, _present)
    spec['wm'] = w
    if w and not merge_ready and draw(st.integers(0, 5)) == 0:
        spec['wm_int'] = draw(st.sampled_from(['int32', 'int64', 'int16']))
    spec['wmi_file'] = bool(w and draw(st.booleans()) and not merge_ready)
    if spec['wmi_file']:
        spec['wmi_approx'] = draw(st.booleans())
        spec['wm_newer'] = draw(st.booleans())
    # only the inverse is there (the matrix file was removed): the loader still reads the inverse
    spec['wmi_only'] = bool(not w and not merge_ready and draw(st.integers(0, 2)) == 0)
    spec['sim'] = draw(_present)
    # features
    f = True if merge_ready else _opt(draw, features, _present)
    if f:
        nloc_f = draw(st.integers(2, nc))
        rows = None
        full = _opt(draw, full_feature_rows, st.booleans())
        if not full and not merge_ready:
            k = draw(st.integers(2, ns))
            rows = sorted(draw(st.lists(st.integers(0, ns - 1), min_size=k, max_size=k,
                                        unique=True)))
        if rows is not None and draw(st.booleans()):
            rows = list(draw(st.permutations(rows)))        # row tables need not be sorted
        spec['pcf'] = {'nloc': nloc_f, 'rows': rows,
                       'ind': [list(draw(st.permutations(list(range(nc)))))[:nloc_f]
                               for _ in range(nt)],
                       'ind_dtype': draw(st.sampled_from(['uint32', 'int32'])),
                       'dtype': draw(st.sampled_from(['float32', 'float64'])),
                       'zero_positive': draw(st.integers(0, 4)) == 0,
                       'rows_dtype': draw(st.sampled_from(['int64', 'int32']))}
    else:
        spec['pcf'] = None
    tf = True if merge_ready else _opt(draw, tfeatures, _present)
    if tf:
        nloc_t = draw(st.integers(2, nt)) if nt >= 2 else 2
        rows = None
        if not merge_ready and draw(st.booleans()):
            k = draw(st.integers(2, ns))
            rows = sorted(draw(st.lists(st.integers(0, ns - 1), min_size=k, max_size=k,
                                        unique=True)))
        if rows is not None and draw(st.booleans()):
            rows = list(draw(st.permutations(rows)))
        spec['tf'] = {'nloc': nloc_t, 'rows': rows,
                      'ind': [list(draw(st.permutations(list(range(nt)))))[:nloc_t]
                              for _ in range(nt)],
                      'ind_dtype': draw(st.sampled_from(['uint32', 'int32'])),
                      'dtype': draw(st.sampled_from(['float32', 'float64'])),
                      'rows_dtype': draw(st.sampled_from(['int64', 'int32']))}
    else:
        spec['tf'] = None
    spec['attrs'] = draw(st.lists(st.sampled_from(['good', 'badlen', 'twod', 'times_sec',
                                                    'templates_orig']), max_size=4, unique=True))
    spec['nan'] = bool(nan and draw(st.booleans()))
    # raw data
    r = _opt(draw, raw, _present)
    if r:
        backend = draw(st.sampled_from(list(raw_backends)))
        rd = {'backend': backend, 'dtype': 'int16', 'chunk': draw(st.integers(2, n_raw + 3))}
        if backend == 'flat':
            from .strategies import composition
            rd['parts'] = draw(composition(n_raw, 3))
            rd['offset'] = draw(st.sampled_from([0, 0, 3, 16]))
            rd['ext'] = draw(st.sampled_from(['.dat', '.bin']))
            rd['names'] = draw(st.sampled_from(['asc', 'desc', 'num']))
        else:
            rd['parts'] = [n_raw]
            rd['offset'] = 0
        if raw_parent and draw(st.integers(0, 2)) == 0:
            rd['where'] = 'parent'      # the sorter's layout: dat_path = '../<recording>'
        spec['raw'] = rd
    else:
        spec['raw'] = None
    return spec


# ---------------------------------------------------------------------------------------------
# builder
# ---------------------------------------------------------------------------------------------

def _col(a, col2d):
    return a[:, None] if col2d else a


def build(spec, dirpath, write_params=True):
    """Write the dataset described by spec into dirpath; return the truth namespace."""
    d = Path(dirpath)
    d.mkdir(parents=True, exist_ok=True)
    rs = np.random.RandomState(spec['seed'])
    ns, nt, nc, nsw = spec['ns'], spec['nt'], spec['nc'], spec['nsw']
    alf = spec['naming'] == 'alf'
    col2d = spec['col2d']
    T = SimpleNamespace(spec=spec, dir=d, files={})

    def save(name, arr, vec=False):
        fn = ALF_NAMES.get(name, name) if alf else name
        a = _col(arr, col2d) if vec else arr
        if vec and name in (spec.get('row_vectors') or ()):
            a = np.asarray(arr)[None, :]        # stored as a (1, n) row: squeezed on load
        np.save(d / fn, a)
        T.files[name] = fn
        return fn

    rate = spec['rate']
    T.rate = rate
    T.samples = np.array(spec['samples'], dtype=spec['time_dtype'])
    if alf:
        T.times = np.array(spec['samples'], dtype=np.float64) / rate
        np.save(d / 'spikes.times.npy', _col(T.times, col2d))
        T.files['spike_times.npy'] = 'spikes.times.npy'
        T.alf_samples_file = bool(spec['alf_samples_file'])
        if T.alf_samples_file:
            np.save(d / 'spikes.samples.npy', _col(T.samples, col2d))
    else:
        T.times = T.samples / rate
        save('spike_times.npy', T.samples, vec=True)
    T.spike_templates = np.array(spec['spike_templates'], dtype=spec['tmpl_dtype'])
    save('spike_templates.npy', T.spike_templates, vec=True)
    if spec['curation']:
        sc = apply_curation(spec['spike_templates'], spec['curation'])
    else:
        sc = list(spec['spike_templates'])
    T.curated = sc != list(spec['spike_templates'])
    T.spike_clusters = np.array(sc, dtype=spec['clu_dtype'])
    T.clusters_file = bool(spec['clusters_file'])
    if T.clusters_file:
        save('spike_clusters.npy', T.spike_clusters, vec=True)
    else:
        T.spike_clusters = T.spike_templates.copy()
    if spec['amplitudes']:
        T.amplitudes = np.round(rs.uniform(0.5, 20.0, size=ns) * 8) / 8.0
        if spec['nan'] and ns > 2:
            T.amplitudes[1] = np.nan
            T.amplitudes[-1] = np.inf
        save('amplitudes.npy', T.amplitudes, vec=True)
    else:
        T.amplitudes = None
    # channels
    T.chmap = np.array(spec['chmap'], dtype=spec['chmap_dtype'])
    save('channel_map.npy', T.chmap, vec=True)
    T.pos = np.array(spec['pos'], dtype=np.float64)
    T.pos_stored = T.pos.astype(spec.get('pos_dtype', 'float64'))
    save('channel_positions.npy', T.pos_stored)
    if spec['shanks'] is not None:
        T.shanks = np.array(spec['shanks'], dtype=np.int32)
        save('channel_shanks.npy', T.shanks, vec=True)
    else:
        T.shanks = None
    if spec['probes_file']:
        T.probes = np.array(spec.get('probes') or [0] * nc, dtype=np.int32)
        save('channel_probe.npy', T.probes, vec=True)
    else:
        T.probes = None
    # templates
    t = spec['templates']
    nloc = nc if t['dense'] else t['nloc']
    if t['int']:
        data = rs.randint(-3, 4, size=(nt, nsw, nloc)).astype(t['dtype'])
        # make sure no template is identically flat
        data[:, 0, 0] += 5
    else:
        data = rs.randn(nt, nsw, nloc).astype(t['dtype'])
    if not t['dense']:
        for k in range(nt):
            real = [j for j, c in enumerate(t['cols'][k]) if c != -1]
            for j in t['zero_cols'][k]:
                if j != real[0]:        # a template always has signal on >= 1 real channel
                    data[k, :, j] = 0
            if not np.any(data[k, :, real[0]] != 0):
                data[k, 0, real[0]] = 2.0
            for j in (t.get('faint_cols') or [[]] * nt)[k]:
                if j != real[0]:
                    data[k, :, j] *= 1e-4
        T.tcols = np.array(t['cols'], dtype=t['cols_dtype'])
        save('template_ind.npy', T.tcols)
    else:
        T.tcols = None
    for k, keep in enumerate(t.get('footprint') or []):
        for j in range(nloc):
            if j not in keep:
                data[k, :, j] = 0
        if not np.any(data[k]):
            data[k, 0, keep[0]] = 2
    if t.get('scale'):
        data = (data.astype(np.float64) * t['scale']).astype(t['dtype'])
    for k, f in enumerate(t.get('per_template_scale') or []):
        data[k] *= f
    T.nan_template = None
    if t.get('nan_template'):
        k = nt - 1 if (nt - 1) not in spec['spike_templates'] else None
        unused = [i for i in range(nt) if i not in spec['spike_templates']]
        if unused:
            kind = t.get('nan_kind', 'all')
            if kind == 'all':
                data[unused[0]] = np.nan
                T.nan_template = unused[0]
            elif kind == 'every-channel-once':
                # NaN entries on every channel, but the template is not empty: it must load as stored
                for j in range(data.shape[2]):
                    data[unused[0], j % nsw, j] = np.nan
            else:
                data[unused[0], :, 0] = np.nan
    T.templates = data
    save('templates.npy', data)
    if t.get('ks2_templates_ind') and not alf:
        np.save(d / 'templates_ind.npy', np.tile(np.arange(nc), (nt, 1)).astype(np.float64))
    if spec['wm']:
        if spec.get('wm_scale'):
            # a well-conditioned matrix of any size and overall scale
            T.wm = spec['wm_scale'] * (np.eye(nc) + 0.1 / np.sqrt(nc) * rs.randn(nc, nc))
        else:
            T.wm = np.eye(nc) + 0.1 * rs.randn(nc, nc)
        # matrix structure: Cholesky-style whitening is triangular, scaled identity is diagonal
        kind = spec.get('wm_kind')
        if kind == 'lower':
            T.wm = np.tril(T.wm)
        elif kind == 'upper':
            T.wm = np.triu(T.wm)
        elif kind == 'diag':
            T.wm = np.diag(np.diag(T.wm))
        if spec.get('wm_int'):
            # a matrix stored with an integer type (unit upper triangular: exactly invertible)
            T.wm = (np.triu(rs.randint(-2, 3, size=(nc, nc)), 1) + np.eye(nc)).astype(spec['wm_int'])
        np.save(d / 'whitening_mat.npy', T.wm)
        if spec['wmi_file']:
            T.wmi_file = np.linalg.inv(T.wm) + 0.0
            if spec.get('wmi_approx'):
                # written by another program: equal to the inverse up to float32 rounding
                T.wmi_file = T.wmi_file.astype(np.float32).astype(np.float64)
            np.save(d / 'whitening_mat_inv.npy', T.wmi_file)
            if spec.get('wm_newer'):
                # the matrix file carries a later modification time than its stored inverse
                os.utime(d / 'whitening_mat_inv.npy', (1500000000, 1500000000))
                os.utime(d / 'whitening_mat.npy', (1600000000, 1600000000))
        else:
            T.wmi_file = None
    else:
        T.wm = None
        T.wmi_file = None
        if spec.get('wmi_only'):
            T.wmi_file = np.eye(nc) + 0.1 * rs.randn(nc, nc)
            np.save(d / 'whitening_mat_inv.npy', T.wmi_file)
    if spec['sim']:
        T.sim = rs.rand(nt, nt).astype(np.float32)
        if spec['nan']:
            T.sim[0, -1] = np.nan
        np.save(d / 'similar_templates.npy', T.sim)
    else:
        T.sim = None
    # features
    T.pcf = T.pcf_ind = T.pcf_rows = None
    if spec['pcf']:
        p = spec['pcf']
        nrows = ns if p['rows'] is None else len(p['rows'])
        T.pcf = rs.randn(nrows, 3, p['nloc']).astype(p['dtype'])       # stored (rows, npc, nloc)
        if p.get('zero_positive'):
            T.pcf[0, 0, :] = -np.abs(T.pcf[0, 0, :])     # positive part of the first PC vanishes
        if p.get('nonfinite'):
            # stored values are what they are: NaN / inf included (the file is memory-mapped)
            T.pcf[1 % nrows, 0, 0] = np.nan
            T.pcf[0, 1, -1] = np.inf
            T.pcf[nrows - 1, 2, 0] = -np.inf
        T.pcf_ind = np.array(p['ind'], dtype=p['ind_dtype'])
        np.save(d / 'pc_features.npy', T.pcf)
        np.save(d / 'pc_feature_ind.npy', T.pcf_ind)
        if p['rows'] is not None:
            T.pcf_rows = np.array(p['rows'], dtype=p.get('rows_dtype', 'int64'))
            np.save(d / 'pc_feature_spike_ids.npy', _col(T.pcf_rows, col2d))
    T.tf = T.tf_ind = T.tf_rows = None
    if spec['tf']:
        p = spec['tf']
        nrows = ns if p['rows'] is None else len(p['rows'])
        T.tf = rs.randn(nrows, p['nloc']).astype(p['dtype'])
        if p.get('nonfinite'):
            T.tf[1 % nrows, 0] = np.nan
            T.tf[0, -1] = np.inf
            T.tf[nrows - 1, 0] = -np.inf
        T.tf_ind = np.array(p['ind'], dtype=p['ind_dtype'])
        np.save(d / 'template_features.npy', T.tf)
        np.save(d / 'template_feature_ind.npy', T.tf_ind)
        if p['rows'] is not None:
            T.tf_rows = np.array(p['rows'], dtype=p.get('rows_dtype', 'int64'))
            np.save(d / 'template_feature_spike_ids.npy', _col(T.tf_rows, col2d))
    # extra spike attributes
    T.attrs = {}
    for a in spec['attrs']:
        if a == 'good':
            arr = np.arange(ns, dtype=np.float64) * 0.5
            if spec['nan']:
                arr[0] = np.nan
            np.save(d / 'spike_good.npy', _col(arr, col2d))
            T.attrs['good'] = arr
        elif a == 'twod':
            arr = rs.randint(0, 9, size=(ns, 2)).astype(np.int32)
            np.save(d / 'spike_twod.npy', arr)
            T.attrs['twod'] = arr
        elif a == 'badlen':
            np.save(d / 'spike_badlen.npy', np.arange(ns + 1))
        elif a in ('times_sec', 'templates_orig'):
            arr = np.arange(ns, dtype=np.int64) * 3 + len(a)
            np.save(d / ('spike_%s.npy' % a), arr)
            T.attrs[a] = arr
    # raw data
    T.raw = None
    dat_path = []
    r = spec['raw']
    dtype = 'int16'
    offset = 0
    if r:
        dtype = r['dtype']
        offset = r['offset']
        T.raw = rec.values(spec['n_raw'], spec['ncd'], dtype, spec['seed'] % 17)
        rd_ = d.parent if r.get('where') == 'parent' else d
        if r['backend'] == 'flat':
            paths = rec.write_flat(rd_, T.raw, r['parts'], r['offset'], ext=r['ext'],
                                   order=r.get('names', 'asc'))
        elif r['backend'] == 'npy':
            np.save(rd_ / 'raw.npy', T.raw)
            paths = [rd_ / 'raw.npy']
        else:
            paths = [rec.write_cbin(rd_, T.raw, sample_rate=rate,
                                    chunk_duration=r['chunk'] / rate)]
        dat_path = [('../' if r.get('where') == 'parent' else '') + p.name for p in paths]
    T.params = dict(dat_path=dat_path, n_channels_dat=spec['ncd'], dtype=dtype, offset=offset,
                    sample_rate=rate, hp_filtered=False)
    if write_params:
        with open(d / 'params.py', 'w') as f:
            for k, v in T.params.items():
                f.write('%s = %r\n' % (k, v))
    T.params_path = d / 'params.py'
    if spec.get('symlinks'):
        store = d.parent / ('annex of ' + d.name)
        store.mkdir(exist_ok=True)
        T.symlinked = []
        for name in spec['symlinks']:
            if (d / name).is_file() and not (d / name).is_symlink():
                os.replace(d / name, store / name)
                os.symlink(str(store / name), str(d / name))
                T.symlinked.append(name)
    return T


# ---------------------------------------------------------------------------------------------
# helpers for checks
# ---------------------------------------------------------------------------------------------

def sha_dir(d):
    """{relative file name: sha256} for every file directly in d."""
    import hashlib
    out = {}
    for p in sorted(Path(d).iterdir()):
        if p.is_file():
            out[p.name] = hashlib.sha256(p.read_bytes()).hexdigest()
    return out


def load(T, must_return):
    from phylib.io.model import load_model
    return must_return('load_model', load_model, T.params_path)


def wmi_of(T):
    """Inverse whitening matrix the model must use (file if present, else inv, else identity)."""
    if T.wmi_file is not None:
        return T.wmi_file
    if T.wm is None:
        return np.eye(T.spec['nc'])
    return np.linalg.inv(T.wm)


def kept_chunk_intervals(chunk_bounds, n_kept=20):
    """Chunk intervals kept by the spike-subset export: regular stride starting with the first."""
    from math import ceil
    b = [int(x) for x in chunk_bounds]
    n = len(b) - 1
    stride = max(1, int(ceil(n / n_kept)))
    return [(b[i], b[i + 1]) for i in range(0, n, stride)]


def store_selection_size(T, m, max_per_template):
    """Number of spikes the subset export will select (independent of the random draw)."""
    iv = kept_chunk_intervals(m.traces.chunk_bounds)
    total = 0
    for t in sorted(set(int(x) for x in T.spike_templates)):
        elig = [i for i in range(len(T.samples)) if int(T.spike_templates[i]) == t and
                any(a <= int(T.samples[i]) < b for a, b in iv)]
        total += min(len(elig), max_per_template)
    return total


def large_spec(ns, seed=1, nt=5, nc=8, nsw=4):
    """A hand-made (not generated) big dataset spec, for batching boundaries (get_depths works in
    batches of 50 000 spikes)."""
    rs = np.random.RandomState(seed)
    samples = np.sort(rs.randint(0, 10 * ns, size=ns)).tolist()
    return {
        'ns': ns, 'nt': nt, 'nc': nc, 'nsw': nsw, 'n_raw': 10 * ns, 'rate': 30000.0,
        'naming': 'ks', 'col2d': False, 'time_dtype': 'uint64', 'tmpl_dtype': 'uint32',
        'clu_dtype': 'int32', 'seed': seed, 'samples': samples,
        'spike_templates': rs.randint(0, nt - 1, size=ns).tolist(),     # highest id unused
        'curation': None, 'clusters_file': True, 'amplitudes': True, 'alf_samples_file': False,
        'ncd': nc, 'chmap': list(range(nc)), 'chmap_dtype': 'int32',
        'pos': [[10.0 * (i % 2), 20.0 * (i // 2)] for i in range(nc)], 'shanks': None,
        'probes_file': False,
        'templates': {'dense': True, 'dtype': 'float32', 'int': False, 'nan_template': False},
        'wm': True, 'wmi_file': False, 'sim': True,
        'pcf': {'nloc': 3, 'rows': None, 'ind': [rs.permutation(nc)[:3].tolist() for _ in range(nt)],
                'ind_dtype': 'uint32', 'dtype': 'float32', 'zero_positive': True,
                'rows_dtype': 'int64'},
        'tf': None, 'attrs': [], 'nan': False, 'raw': None}


def many_channels_spec(nc, nt=4, ns=60, nsw=5, seed=2, wm_scale=None, shanks=False):
    """Hand-made: a probe with many channels (64 and more; 384-channel probes are common)."""
    rs = np.random.RandomState(seed)
    spec = large_spec(ns, seed=seed, nt=nt, nc=nc, nsw=nsw)
    spec['n_raw'] = 10 * ns
    spec['pos'] = [[16.0 * (i % 4) + 8 * ((i // 4) % 2), 20.0 * (i // 4)] for i in range(nc)]
    spec['spike_templates'] = rs.randint(0, nt, size=ns).tolist()
    spec['pcf'] = None
    spec['wm_scale'] = wm_scale
    if shanks:
        spec['shanks'] = [(4 * i) // nc for i in range(nc)]
    return spec


def big_merge_spec(nt=300, merged=280, ns=2000, nc=16, seed=6):
    """Hand-made: one cluster made of several hundred templates with uneven spike counts."""
    rs = np.random.RandomState(seed)
    spec = large_spec(ns, seed=seed, nt=nt, nc=nc, nsw=3)
    st_ = np.r_[np.arange(nt), rs.randint(0, nt, size=ns - nt) ** 2 % nt]     # uneven counts
    rs.shuffle(st_)
    spec['spike_templates'] = st_.tolist()
    spec['tmpl_dtype'] = 'uint16'
    spec['pcf'] = None
    spec['pos'] = [[16.0 * (i % 2), 20.0 * (i // 2)] for i in range(nc)]
    # (merge ops address the sorted list of present ids by position: the two lowest first, then
    # always the lowest remaining template with the cluster created last)
    spec['curation'] = [{'op': 'merge', 'a': 0, 'b': 1}] + \
        [{'op': 'merge', 'a': 0, 'b': -1} for _ in range(merged - 2)]
    return spec


def stray_spike_spec(n_major=120000, seed=4):
    """Hand-made: a cluster of n_major spikes of template 0 merged with a single spike of the
    (1000 times larger) template 1; the weighted mean still carries 1/(n_major+1) of template 1."""
    spec = large_spec(n_major + 11, seed=seed, nt=3, nc=4, nsw=3)
    spec['spike_templates'] = [0] * (n_major // 2) + [1] + [0] * (n_major - n_major // 2) + [2] * 10
    spec['templates']['per_template_scale'] = [1.0, 1000.0, 1.0]
    spec['pcf'] = None
    spec['wm'] = False
    spec['curation'] = [{'op': 'merge', 'a': 0, 'b': 1}]
    return spec


def large_curated_spec(nt=300, ns=1500, nc=4, nsw=3, seed=3):
    """Hand-made: several hundred templates stored as uint16 ids, a few merges that involve high
    template ids (products such as id * n_clusters exceed the uint16 range)."""
    rs = np.random.RandomState(seed)
    spec = large_spec(ns, seed=seed, nt=nt, nc=nc, nsw=nsw)
    st_ = rs.randint(0, nt, size=ns)
    st_[:nt] = np.arange(nt)            # every template has at least one spike
    spec['spike_templates'] = st_.tolist()
    spec['tmpl_dtype'] = 'uint16'
    spec['pcf'] = None
    spec['wm'] = True
    spec['curation'] = [
        {'op': 'merge', 'a': 5, 'b': nt - 50},          # low + high template -> new id
        {'op': 'merge', 'a': nt - 42, 'b': nt - 32},    # two high templates
        {'op': 'split', 'a': nt - 20, 'cut': 1, 'interleave': False},
    ]
    return spec


def large_pca_spec(ns=1200, seed=5):
    """Hand-made: no feature files, raw data in a single chunk, > 1000 spikes."""
    spec = large_spec(ns, seed=seed, nt=3, nc=4, nsw=4)
    rs = np.random.RandomState(seed)
    n_raw = 3000
    spec['n_raw'] = n_raw
    spec['samples'] = np.sort(rs.randint(0, n_raw, size=ns)).tolist()
    spec['spike_templates'] = rs.randint(0, 3, size=ns).tolist()
    spec['rate'] = 100.0
    spec['pcf'] = None
    spec['raw'] = {'backend': 'flat', 'dtype': 'int16', 'chunk': n_raw, 'parts': [n_raw],
                   'offset': 0, 'ext': '.dat', 'names': 'asc'}
    return spec
