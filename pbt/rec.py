# -*- coding: utf-8 -*-
"""Deterministic construction of raw recordings in every backend the readers support."""

from pathlib import Path

import numpy as np

from . import env  # noqa: F401  (shim + path first)


def values(n, nch, dtype, salt=0, nonfinite=False):
    """(n, nch) array of small integers, a pure function of the arguments; all rows distinct in
    practice so that a mis-addressed row is visible."""
    dtype = np.dtype(dtype)
    i = np.arange(n, dtype=np.int64)[:, None]
    j = np.arange(nch, dtype=np.int64)[None, :]
    v = (i * 37 + j * 101 + (i * i) * 3 + salt * 13 + 7) % 3989 - 1994
    if dtype.kind == 'u':
        v = v % (2 ** (8 * dtype.itemsize)) if dtype.itemsize < 2 else (v + 1994)
    if dtype == np.dtype('int8'):
        v = v % 256 - 128
    v = v.astype(dtype)
    if nonfinite and dtype.kind == 'f':
        # a float recording may hold NaN / inf samples (saturated or masked stretches)
        i = np.arange(n)
        v[i % 5 == (salt % 5), nch - 1] = np.nan
        v[i % 7 == 3, 0] = np.inf
        v[i % 11 == 5, nch - 1] = -np.inf
    return v


def header_bytes(offset):
    return bytes((0xA5 + 3 * k) % 251 + 1 for k in range(offset))


def part_names(n, order='asc', stem='raw'):
    """File stems for n parts.  The given order of the files is what defines the recording; only
    'asc' coincides with the lexicographic order of the names ('desc' reverses it, 'num' is the
    run_8, run_9, run_10 pattern)."""
    if order == 'desc':
        return ['%s%d' % (stem, n - 1 - k) for k in range(n)]
    if order == 'num':
        return ['%s_%d' % (stem, 8 + k) for k in range(n)]
    return ['%s%d' % (stem, k) for k in range(n)]


def write_flat(dirpath, arr, parts, offset=0, ext='.dat', stem='raw', order='asc'):
    """Write arr as len(parts) flat binary files with the given first-axis sizes."""
    assert sum(parts) == arr.shape[0]
    paths = []
    i = 0
    names = part_names(len(parts), 'asc' if order == 'samebase' else order, stem)
    exts = ['.bin', '.dat', '.raw'] if ext == 'mixed' else [ext]     # all are flat raw formats
    for k, sz in enumerate(parts):
        ext = exts[k % len(exts)]
        p = Path(dirpath) / (names[k] + ext)
        if order == 'samebase':
            # one folder per part, the same file name in each (recording1/continuous.dat, ...)
            (Path(dirpath) / ('recording%d' % (k + 1))).mkdir(exist_ok=True)
            p = Path(dirpath) / ('recording%d' % (k + 1)) / ('continuous' + ext)
        with open(p, 'wb') as f:
            f.write(header_bytes(offset))
            f.write(np.ascontiguousarray(arr[i:i + sz]).tobytes())
        i += sz
        paths.append(p)
    return paths


def write_cbin(dirpath, arr, sample_rate, chunk_duration, stem='raw'):
    """Compress arr with mtscomp; returns the .cbin path (the .ch sits next to it)."""
    import mtscomp
    d = Path(dirpath)
    src = d / (stem + '.src.bin')
    np.ascontiguousarray(arr).tofile(src)
    out = d / (stem + '.cbin')
    mtscomp.compress(src, out, d / (stem + '.ch'), sample_rate=float(sample_rate),
                     n_channels=arr.shape[1], dtype=arr.dtype, chunk_duration=float(chunk_duration),
                     n_threads=1, check_after_compress=False)
    src.unlink()
    return out


def rate_for_chunk(c):
    """Sample rate for which phylib's fixed 600 s chunk duration is exactly c samples."""
    from phylib.io import traces
    sr = c / traces.DEFAULT_CHUNK_DURATION
    assert int(round(traces.DEFAULT_CHUNK_DURATION * sr)) == c
    return sr


class SparseRecording(object):
    """A flat recording of more than 2**31 samples of which only the first and the last `block`
    rows are really written (a sparse file: the hole in between reads as zeros and takes no
    space).  `rows(idx)` is what the file holds at the given sample indices."""

    def __init__(self, dirpath, n, nch=2, dtype='int16', block=64, name='long.bin', salt=0):
        self.n, self.nch, self.block = n, nch, block
        self.dtype = np.dtype(dtype)
        self.head = values(block, nch, dtype, salt)
        self.tail = values(block, nch, dtype, salt + 1)
        self.path = Path(dirpath) / name
        row = nch * self.dtype.itemsize
        with open(self.path, 'wb') as f:
            f.write(self.head.tobytes())
            f.seek((n - block) * row)
            f.write(self.tail.tobytes())
        assert self.path.stat().st_size == n * row

    def rows(self, idx):
        idx = [int(i) % self.n if int(i) < 0 else int(i) for i in idx]
        out = np.zeros((len(idx), self.nch), dtype=self.dtype)
        for k, i in enumerate(idx):
            if i < self.block:
                out[k] = self.head[i]
            elif i >= self.n - self.block:
                out[k] = self.tail[i - (self.n - self.block)]
        return out
