# -*- coding: utf-8 -*-
"""Runner shared by all property checks.

A property module (pbt/props/cXX.py) provides

    ID, LEVEL, RULE, ASSUMPTIONS
    drivers(tier)        -> list of driver dicts (see below)
    check(case)          -> info (anything) ; raises Violation / Reject
    classify(case, info) -> (list of label strings, nontrivial: bool)

A *case* is a plain JSON-serialisable value.  Drivers:

    {'kind': 'enum', 'name': ..., 'cases': callable -> iterator of cases, 'bound': 'text',
     'exhaustive': True}
    {'kind': 'hyp', 'name': ..., 'strategy': hypothesis strategy of cases, 'examples': N}
    {'kind': 'machine', 'name': ..., 'machine': TraceMachine subclass, 'examples': N,
     'steps': K}

Exit codes: 0 property held on everything explored, 1 violation (a line
`VIOLATION property=<id> replay=<path>` on stdout), 2 harness error (never a VIOLATION line).
"""

import argparse
import hashlib
import importlib
import itertools
import contextlib
import json
import multiprocessing as mp
import os
import re
import sys
import time
import traceback
from pathlib import Path

from . import env

import numpy as np

VERIF_DIR = env.VERIF_DIR
N_WORKERS = max(1, min(16, os.cpu_count() or 1))


# ---------------------------------------------------------------------------------------------
# Exceptions
# ---------------------------------------------------------------------------------------------

class Violation(Exception):
    """The property does not hold on this case."""

    def __init__(self, what, key=None, observed=None, expected=None):
        self.what = what
        self.key = key or re.sub(r'[^A-Za-z0-9_.:@-]+', '-', what)[:60]
        self.observed = _short(observed)
        self.expected = _short(expected)
        super().__init__(what)

    def __str__(self):
        s = self.what
        if self.observed is not None or self.expected is not None:
            s += ' | observed=%s expected=%s' % (self.observed, self.expected)
        return s


class Reject(Exception):
    """The generated case is outside the domain of the property (counted, must stay rare)."""


class HarnessError(Exception):
    """Something is wrong with the harness / oracle, not with the code under test."""


def _short(x, n=400):
    if x is None:
        return None
    try:
        if isinstance(x, np.ndarray):
            s = 'ndarray%s %s %s' % (x.shape, x.dtype, np.array2string(x, threshold=40))
        else:
            s = repr(x)
    except Exception:  # pragma: no cover
        s = '<unprintable>'
    return s if len(s) <= n else s[:n] + '...'


def _innermost_phylib_frame(tb):
    """(file, function) of the innermost traceback frame that lies in the repo under test."""
    best = None
    for fs in traceback.extract_tb(tb):
        fn = fs.filename
        if '/phylib/' in fn and str(env.REPO) in fn:
            best = (fn.split('/phylib/', 1)[1], fs.name)
    return best


# ---------------------------------------------------------------------------------------------
# Ambient process state.  Callers legitimately run with floating-point errors raised, warnings
# turned into errors, verbose logging or other NumPy print options; none of this may change what
# the code under test returns.  One case in three makes every call into the code under test (they
# all go through must_return / must_raise) under such a state.  The choice is a function of the
# case (its hash) and is stored in the case when it fails, so that replays are exact.
# ---------------------------------------------------------------------------------------------
AMBIENT = ()
ALL_AMBIENT = ('fp', 'log', 'print', 'warn')


class _Sink(__import__('logging').Handler):
    def emit(self, record):
        try:
            self.format(record)
        except Exception:
            pass


_SINK = _Sink(level=0)


def ambient_for(mod, case):
    if isinstance(case, dict) and 'ambient' in case:
        return tuple(case['ambient'])
    basis = case.get('init') if isinstance(case, dict) and 'trace' in case else case
    if case_hash64(basis) % 3:
        return ()
    excluded = getattr(mod, 'AMBIENT_EXCLUDE', {})
    return tuple(a for a in ALL_AMBIENT if a not in excluded)


def set_ambient(mod, case):
    global AMBIENT
    AMBIENT = ambient_for(mod, case)
    return AMBIENT


@contextlib.contextmanager
def without(*kinds):
    """Temporarily drop some ambient kinds (for calls the unchanged code only supports under the
    default state; each use is explained in DESIGN section 11)."""
    global AMBIENT
    old = AMBIENT
    AMBIENT = tuple(a for a in old if a not in kinds)
    try:
        yield
    finally:
        AMBIENT = old


@contextlib.contextmanager
def ambient_ctx():
    a = AMBIENT
    if not a:
        yield
        return
    import logging
    import warnings
    with contextlib.ExitStack() as stack:
        if 'fp' in a:
            stack.enter_context(np.errstate(divide='raise', invalid='raise', over='raise'))
        if 'print' in a:
            stack.enter_context(np.printoptions(threshold=3, edgeitems=1, precision=1))
        if 'warn' in a:
            stack.enter_context(warnings.catch_warnings())
            warnings.simplefilter('error')
        if 'log' in a:
            lg = logging.getLogger('phylib')
            old = lg.level
            lg.setLevel(5)
            stack.callback(lg.setLevel, old)
            # (the harness keeps logging disabled process-wide to stay quiet; verbose logging
            # means the records are really built and handed to the package's NullHandler)
            off = logging.root.manager.disable
            logging.disable(logging.NOTSET)
            stack.callback(logging.disable, off)
            # records are built and formatted by a handler of our own and go no further
            prop = lg.propagate
            lg.propagate = False
            stack.callback(setattr, lg, 'propagate', prop)
            lg.addHandler(_SINK)
            stack.callback(lg.removeHandler, _SINK)
        yield


def must_return(what, fn, *args, **kwargs):
    """Call code under test where the property promises a value: any exception is a violation."""
    try:
        with ambient_ctx():
            return fn(*args, **kwargs)
    except (Violation, Reject, HarnessError):
        raise
    except Exception as e:
        fr = _innermost_phylib_frame(e.__traceback__)
        where = '%s:%s' % fr if fr else 'outside-phylib'
        amb = (' [ambient state: %s]' % '+'.join(AMBIENT)) if AMBIENT else ''
        raise Violation('%s raised %s: %s%s' % (what, type(e).__name__, str(e)[:200], amb),
                        key='raised:%s@%s' % (type(e).__name__, where))


# kinds of integer a caller may hand over where an id, a count or a size is expected
INT_KINDS = ['int', 'int64', 'int32', 'uint32', 'uint8', 'int16', '0d', 'intp']


def as_int_kind(v, k):
    """The integer v as the k-th kind (Python int, NumPy scalar of some width, 0-d array); kinds
    that cannot hold v fall back to int64."""
    kind = INT_KINDS[k % len(INT_KINDS)]
    if kind == 'int':
        return int(v)
    if kind == '0d':
        return np.array(int(v))
    dt = np.dtype(kind)
    info = np.iinfo(dt)
    if not (info.min <= int(v) <= info.max):
        dt = np.dtype('int64')
    return dt.type(int(v))


def scribble(obj):
    """Edit a returned result in place, as a caller that owns it may do (rescale, sort, mask).
    Returns True if anything was edited.  Only used on results of computing accessors."""
    done = False
    if isinstance(obj, np.ndarray):
        if obj.flags.writeable and obj.size:
            if obj.dtype.kind == 'f':
                obj[...] = obj[::-1] * -3.5 + 11
                obj.flat[0] = np.nan
            elif obj.dtype.kind in 'iu':
                obj[...] = (obj[::-1] + 1)
            elif obj.dtype.kind == 'b':
                obj[...] = ~obj
            done = True
    elif isinstance(obj, (tuple, list)):
        for x in obj:
            done = scribble(x) or done
    elif isinstance(obj, dict):
        for x in obj.values():
            done = scribble(x) or done
    return done


def twice(what, fn, compare):
    """Call an accessor, compare, edit the result in place, call again and compare again: what an
    accessor returns must not depend on what the caller did with an earlier result."""
    out = must_return(what, fn)
    compare(out, what)
    if scribble(out):
        again = what + ' (second call, after the first result was edited in place by the caller)'
        out2 = must_return(again, fn)
        compare(out2, again)
        return out2
    return out


def must_raise(what, exc_types, fn, *args, **kwargs):
    """Call code under test where the property promises a rejection."""
    try:
        with ambient_ctx():
            out = fn(*args, **kwargs)
    except exc_types:
        return
    except (Violation, Reject, HarnessError):
        raise
    except Exception as e:
        raise Violation('%s raised %s instead of %s' % (what, type(e).__name__, exc_types),
                        key='wrong-exception:%s' % what)
    raise Violation('%s returned instead of raising' % what, key='no-exception:%s' % what,
                    observed=out)


def require(cond, what, key=None, observed=None, expected=None):
    if not cond:
        raise Violation(what, key=key, observed=observed, expected=expected)


def same_array(what, obs, exp, key=None, dtype=True, tol=None, equal_nan=True):
    """Exact (or tolerant) array comparison raising Violation."""
    obs_a = np.asarray(obs)
    exp_a = np.asarray(exp)
    if obs_a.shape != exp_a.shape:
        raise Violation('%s: shape %s != %s' % (what, obs_a.shape, exp_a.shape),
                        key=key or ('shape:' + what), observed=obs_a, expected=exp_a)
    if dtype and np.dtype(obs_a.dtype) != np.dtype(exp_a.dtype):
        raise Violation('%s: dtype %s != %s' % (what, obs_a.dtype, exp_a.dtype),
                        key=key or ('dtype:' + what), observed=obs_a.dtype, expected=exp_a.dtype)
    if tol is None:
        if obs_a.dtype.kind in 'fc' or exp_a.dtype.kind in 'fc':
            ok = np.array_equal(obs_a, exp_a, equal_nan=equal_nan)
        else:
            ok = np.array_equal(obs_a, exp_a)
    else:
        rtol, atol = tol
        ok = np.allclose(obs_a.astype(np.float64), exp_a.astype(np.float64), rtol=rtol, atol=atol,
                         equal_nan=equal_nan)
    if not ok:
        raise Violation('%s: values differ' % what, key=key or ('values:' + what),
                        observed=obs_a, expected=exp_a)


# ---------------------------------------------------------------------------------------------
# JSON helpers
# ---------------------------------------------------------------------------------------------

def _json_default(o):
    if isinstance(o, np.integer):
        return int(o)
    if isinstance(o, np.floating):
        return float(o)
    if isinstance(o, np.bool_):
        return bool(o)
    if isinstance(o, np.ndarray):
        return o.tolist()
    if isinstance(o, (set, frozenset)):
        return sorted(o)
    if isinstance(o, tuple):
        return list(o)
    if isinstance(o, bytes):
        return {'__bytes__': o.hex()}
    raise TypeError('not JSON-able: %r' % (o,))


def canon(case):
    return json.dumps(case, sort_keys=True, separators=(',', ':'), default=_json_default)


def case_hash64(case):
    return int.from_bytes(hashlib.blake2b(canon(case).encode(), digest_size=8).digest(), 'little')


def normalise(case):
    """Round-trip through JSON so that the case seen by check() is what a replay would load."""
    return json.loads(canon(case))


# ---------------------------------------------------------------------------------------------
# Known findings
# ---------------------------------------------------------------------------------------------

def load_known(pid):
    """Return {key: description} for `finding:` lines of this property."""
    out = {}
    p = VERIF_DIR / 'KNOWN_FINDINGS.txt'
    if not p.exists():
        return out
    for line in p.read_text().splitlines():
        line = line.strip()
        if not line.startswith('finding:'):
            continue
        m = re.search(r'property=(\S+)\s+key=(\S+)\s*(.*)$', line)
        if m and m.group(1) == pid:
            out[m.group(2)] = m.group(3)
    return out


# ---------------------------------------------------------------------------------------------
# Per-process run state
# ---------------------------------------------------------------------------------------------

class RunState(object):
    MAX_SAMPLES_NT = 3
    MAX_LABEL_SAMPLES = 14
    MAX_SAMPLE_CHARS = 3000

    def __init__(self, mod, tier, shrink_limit):
        self.mod = mod
        self.tier = tier
        self.shrink_limit = shrink_limit
        self.evals = 0
        self.steps = 0
        self.rejected = 0
        self.excluded_known = 0
        self.nt_hashes = []
        self.labels = {}
        self.samples_nt = []
        self.samples_label = {}
        self.failures = {}      # key -> dict(case, what, size)
        self.n_failures = 0
        self.harness = None     # (text, case)
        self.first_failure_t = None
        self.current = None

    # -- bookkeeping ------------------------------------------------------------------------
    def watchdog_fired(self):
        return (self.first_failure_t is not None and
                time.time() - self.first_failure_t > self.shrink_limit)

    def note_failure(self, case, v):
        self.n_failures += 1
        # a check may narrow an enumerated composite case down to the failing sub-case
        if getattr(v, 'case', None) is not None and not self.in_hypothesis:
            case = v.case
        if self.in_hypothesis and self.first_failure_t is None:
            self.first_failure_t = time.time()
        if isinstance(case, dict) and 'ambient' not in case:
            case = dict(case, ambient=list(AMBIENT))    # replays use exactly this state
        c = canon(case)
        prev = self.failures.get(v.key)
        # Hypothesis only visits smaller failing examples while shrinking, so the last one seen is
        # the smallest; for enumerations keep the shortest.
        if prev is None or len(c) <= prev['size'] or self.in_hypothesis:
            self.failures[v.key] = dict(case=json.loads(c), what=str(v), size=len(c), key=v.key)

    def note_harness(self, case, e):
        if self.harness is None:
            self.harness = (''.join(traceback.format_exception(type(e), e, e.__traceback__)),
                            _short(case, 2000))

    def classify(self, case, info):
        try:
            labels, nt = self.mod.classify(case, info)
        except Exception as e:
            self.note_harness(case, e)
            raise
        if AMBIENT:
            labels = list(labels) + ['ambient-state:' + '+'.join(AMBIENT)]
        for lab in labels:
            self.labels[lab] = self.labels.get(lab, 0) + 1
        if nt:
            self.nt_hashes.append(case_hash64(case))
        want_nt = nt and len(self.samples_nt) < self.MAX_SAMPLES_NT
        want_lab = [lab for lab in labels if lab not in self.samples_label and
                    len(self.samples_label) < self.MAX_LABEL_SAMPLES]
        if want_nt or want_lab:
            c = canon(case)
            s = json.loads(c) if len(c) <= self.MAX_SAMPLE_CHARS else \
                {'truncated_case': c[:self.MAX_SAMPLE_CHARS]}
            if want_nt:
                self.samples_nt.append(s)
            for lab in want_lab[:1]:
                self.samples_label[lab] = s

    in_hypothesis = False

    def run_one(self, case):
        """Execute one case.  Re-raises Violation (so that Hypothesis can shrink)."""
        self.evals += 1
        self.current = case
        if self.watchdog_fired():
            return
        set_ambient(self.mod, case)
        try:
            info = self.mod.check(case)
        except Reject:
            self.rejected += 1
            return
        except Violation as v:
            self.note_failure(case, v)
            raise
        except BaseException as e:
            if type(e).__module__.startswith('hypothesis'):
                raise
            if isinstance(e, (KeyboardInterrupt, SystemExit)):
                raise
            self.note_harness(case, e)
            raise
        if self.first_failure_t is None:
            self.classify(case, info)

    def result(self):
        return dict(evals=self.evals, steps=self.steps, rejected=self.rejected,
                    excluded_known=self.excluded_known,
                    nt=np.array(self.nt_hashes, dtype=np.uint64), labels=self.labels,
                    samples_nt=self.samples_nt, samples_label=self.samples_label,
                    failures=self.failures, n_failures=self.n_failures, harness=self.harness)


RUN = None  # set in each worker


# ---------------------------------------------------------------------------------------------
# Stateful helper: every rule funnels through do(op); the case is the trace.
# ---------------------------------------------------------------------------------------------

def make_trace_machine_base():
    from hypothesis.stateful import RuleBasedStateMachine

    class TraceMachine(RuleBasedStateMachine):
        """Subclasses define rules that call self.do(op_dict) and a classmethod new_interp(init)."""
        MOD = None
        KIND = None

        def __init__(self):
            super().__init__()
            self.trace = []
            self.init = None
            self.interp = None

        def case(self):
            c = {'trace': list(self.trace)}
            if self.KIND is not None:
                c['kind'] = self.KIND
            if self.init is not None:
                c['init'] = self.init
            return c

        def start(self, init):
            """Optional: called from an @initialize rule with a JSON-able init dict."""
            self.init = normalise(init)
            self._ensure()

        def _ensure(self):
            if self.interp is None:
                RUN.current = self.case()
                set_ambient(self.MOD, self.case())
                try:
                    self.interp = self.MOD.new_interp(self.case())
                except Violation as v:
                    RUN.note_failure(self.case(), v)
                    raise
                except BaseException as e:
                    if not type(e).__module__.startswith('hypothesis'):
                        RUN.note_harness(self.case(), e)
                    raise

        def do(self, op):
            if RUN.watchdog_fired():
                return
            op = normalise(op)
            self._ensure()
            self.trace.append(op)
            RUN.steps += 1
            RUN.current = self.case()
            try:
                self.interp.step(op)
            except Reject:
                self.trace.pop()
                RUN.rejected += 1
            except Violation as v:
                RUN.note_failure(self.case(), v)
                raise
            except BaseException as e:
                if type(e).__module__.startswith('hypothesis') or \
                        isinstance(e, (KeyboardInterrupt, SystemExit)):
                    raise
                RUN.note_harness(self.case(), e)
                raise

        def teardown(self):
            interp, self.interp = self.interp, None
            if interp is None:
                return
            failed_before = RUN.n_failures
            try:
                info = interp.finish()
            except Violation as v:
                RUN.note_failure(self.case(), v)
                raise
            except BaseException as e:
                if not type(e).__module__.startswith('hypothesis'):
                    RUN.note_harness(self.case(), e)
                raise
            finally:
                interp.close()
            RUN.evals += 1
            if RUN.first_failure_t is None and RUN.n_failures == failed_before:
                RUN.classify(self.case(), info)

    return TraceMachine


def replay_trace(mod, case):
    """check(case) for trace cases: run the saved trace through the same interpreter."""
    set_ambient(mod, case)
    interp = mod.new_interp(case)
    try:
        for op in case['trace']:
            try:
                interp.step(op)
            except Reject:
                pass
        return interp.finish()
    finally:
        interp.close()


# ---------------------------------------------------------------------------------------------
# Worker
# ---------------------------------------------------------------------------------------------

def _hyp_settings(n, steps=None, tier='quick'):
    from hypothesis import settings, HealthCheck, Verbosity, Phase
    kw = dict(max_examples=max(1, n), database=None, deadline=None, derandomize=False,
              report_multiple_bugs=False, print_blob=False, verbosity=Verbosity.quiet,
              suppress_health_check=[HealthCheck.too_slow, HealthCheck.data_too_large,
                                     HealthCheck.large_base_example],
              phases=[Phase.explicit, Phase.generate, Phase.shrink])
    if steps is not None:
        kw['stateful_step_count'] = steps
    return settings(**kw)


def _run_shard(args):
    global RUN
    modname, tier, seed, shard, nshards, shrink_limit = args
    cov = None
    if os.environ.get('VERIF_COVERAGE'):
        # development aid (tools/coverage.sh): which lines of phylib do the generated cases run?
        import coverage
        cov = coverage.Coverage(data_file=os.environ['VERIF_COVERAGE'], data_suffix=True,
                                source=[str(env.REPO / 'phylib')])
        cov.start()
    try:
        env.import_phylib()
        mod = importlib.import_module(modname)
        RUN = RunState(mod, tier, shrink_limit)
        drivers = mod.drivers(tier)
        per_driver = []
        for d in drivers:
            before = RUN.evals
            t0 = time.time()
            if RUN.harness is not None:
                break
            if d['kind'] == 'enum':
                RUN.in_hypothesis = False
                for case in itertools.islice(d['cases'](), shard, None, nshards):
                    try:
                        RUN.run_one(case)
                    except Violation:
                        if RUN.n_failures >= 50:
                            break
                    except Exception:
                        break
            elif d['kind'] in ('hyp', 'machine'):
                if RUN.failures:
                    # a violation was already found by an earlier driver of this shard
                    per_driver.append((d['name'], 0, 0.0))
                    continue
                import hypothesis
                from hypothesis import given
                RUN.in_hypothesis = True
                n = -(-d['examples'] // nshards)
                hseed = (int(seed) * 1000003 + shard * 7919 + len(per_driver)) % (2 ** 63)
                try:
                    if d['kind'] == 'hyp':
                        @hypothesis.seed(hseed)
                        @_hyp_settings(n, tier=tier)
                        @given(d['strategy'])
                        def t(case):
                            RUN.run_one(normalise(case))
                        t()
                    else:
                        from hypothesis.stateful import run_state_machine_as_test
                        run_state_machine_as_test(
                            hypothesis.seed(hseed)(d['machine']),
                            settings=_hyp_settings(n, steps=d.get('steps', 20), tier=tier))
                except Violation:
                    pass
                except BaseException as e:
                    if isinstance(e, (KeyboardInterrupt, SystemExit)):
                        raise
                    # Flaky after the watchdog fired, or a genuine harness problem.
                    if not RUN.failures and RUN.harness is None:
                        RUN.note_harness(RUN.current, e)
                RUN.in_hypothesis = False
            else:
                raise HarnessError('unknown driver kind %r' % d['kind'])
            per_driver.append((d['name'], RUN.evals - before, time.time() - t0))
        res = RUN.result()
        res['per_driver'] = per_driver
        return res
    except BaseException as e:  # harness failure outside a case
        return dict(harness=(''.join(traceback.format_exception(type(e), e, e.__traceback__)),
                             'shard %d' % shard),
                    evals=0, steps=0, rejected=0, excluded_known=0,
                    nt=np.array([], dtype=np.uint64), labels={}, samples_nt=[], samples_label={},
                    failures={}, n_failures=0, per_driver=[])
    finally:
        if cov is not None:
            cov.stop()
            cov.save()
        env.cleanup_root()


# ---------------------------------------------------------------------------------------------
# Parent
# ---------------------------------------------------------------------------------------------

def _replay_dir(pid):
    d = Path(os.environ.get('VERIF_REPLAY_DIR') or (VERIF_DIR / 'replays')) / pid
    d.mkdir(parents=True, exist_ok=True)
    return d


def _write_replay(pid, fail, prefix='min'):
    c = canon(fail['case'])
    sha = hashlib.sha1((fail['key'] + c).encode()).hexdigest()[:12]
    p = _replay_dir(pid) / ('%s-%s.json' % (prefix, sha))
    p.write_text(json.dumps(dict(property=pid, key=fail['key'], what=fail['what'],
                                 case=fail['case']), indent=1, sort_keys=True,
                            default=_json_default) + '\n')
    return p


def _run_saved(mod, path):
    """Run a saved case.  Returns None if it passes, else the Violation."""
    d = json.loads(Path(path).read_text())
    try:
        set_ambient(mod, d['case'])
        mod.check(d['case'])
    except Reject:
        return None
    except Violation as v:
        return v
    return None


def main(argv=None):
    ap = argparse.ArgumentParser(prog='check')
    ap.add_argument('property')
    ap.add_argument('--tier', default=os.environ.get('VERIF_TIER', 'quick'),
                    choices=['quick', 'thorough'])
    ap.add_argument('--replay', default=None)
    ap.add_argument('--workers', type=int, default=N_WORKERS)
    ap.add_argument('--no-evidence', action='store_true')
    a = ap.parse_args(argv)
    pid = a.property.upper()
    try:
        seed = int(os.environ.get('VERIF_SEED', '1') or '1')
    except ValueError:
        seed = 1
    t0 = time.time()
    try:
        env.import_phylib()
        modname = 'pbt.props.%s' % pid.lower()
        mod = importlib.import_module(modname)
    except BaseException:
        traceback.print_exc()
        print('HARNESS-ERROR property=%s cannot import' % pid)
        return 2

    # -- replay mode -----------------------------------------------------------------------
    if a.replay:
        try:
            v = _run_saved(mod, a.replay)
        except BaseException:
            traceback.print_exc()
            print('HARNESS-ERROR property=%s replay crashed' % pid)
            return 2
        if v is None:
            print('replay passes: property=%s %s' % (pid, a.replay))
            return 0
        print('  %s' % v)
        print('VIOLATION property=%s replay=%s' % (pid, a.replay))
        return 1

    known = load_known(pid)
    violations = []      # (key, what, replay path)
    known_hits = {}
    notes = []

    # -- regression replays of fixed findings and witnesses of known findings ----------------
    rdir = VERIF_DIR / 'replays' / pid
    n_regress = 0
    try:
        for p in sorted(rdir.glob('fixed-*.json')) if rdir.is_dir() else []:
            n_regress += 1
            v = _run_saved(mod, p)
            if v is not None:
                violations.append((v.key, str(v), p))
        for p in sorted(rdir.glob('known-*.json')) if rdir.is_dir() else []:
            n_regress += 1
            d = json.loads(p.read_text())
            v = _run_saved(mod, p)
            if v is None:
                notes.append('known finding %s no longer reproduces' % d.get('key'))
            elif v.key in known:
                known_hits[v.key] = known[v.key]
            else:
                violations.append((v.key, str(v), p))
    except BaseException:
        traceback.print_exc()
        print('HARNESS-ERROR property=%s saved-case replay crashed' % pid)
        return 2

    # -- generated search ---------------------------------------------------------------------
    shrink_limit = 45 if a.tier == 'quick' else 200
    nshards = max(1, a.workers)
    jobs = [(modname, a.tier, seed, s, nshards, shrink_limit) for s in range(nshards)]
    if nshards == 1:
        results = [_run_shard(jobs[0])]
    else:
        ctx = mp.get_context('fork')
        with ctx.Pool(nshards) as pool:
            results = pool.map(_run_shard, jobs, chunksize=1)

    harness = [r['harness'] for r in results if r.get('harness')]
    evals = sum(r['evals'] for r in results)
    steps = sum(r['steps'] for r in results)
    rejected = sum(r['rejected'] for r in results)
    excluded = sum(r['excluded_known'] for r in results)
    nt = np.unique(np.concatenate([r['nt'] for r in results])) if results else np.array([])
    labels = {}
    for r in results:
        for k, n in r['labels'].items():
            labels[k] = labels.get(k, 0) + n
    samples = []
    seen = set()
    for r in results:
        for s in r['samples_nt']:
            c = canon(s)
            if c not in seen and len(samples) < 4:
                seen.add(c)
                samples.append(s)
    label_samples = {}
    for r in results:
        for lab, s in r['samples_label'].items():
            if lab not in label_samples and len(label_samples) < 16:
                label_samples[lab] = s
    for lab in sorted(label_samples):
        c = canon(label_samples[lab])
        if c not in seen:
            seen.add(c)
            samples.append(label_samples[lab])
    per_driver = {}
    for r in results:
        for name, n, dt in r.get('per_driver', []):
            e = per_driver.setdefault(name, [0, 0.0])
            e[0] += n
            e[1] = max(e[1], dt)

    # -- failures: dedupe by key, smallest case wins, confirm by direct replay --------------------
    fails = {}
    for r in results:
        for key, f in r['failures'].items():
            if key not in fails or f['size'] < fails[key]['size']:
                fails[key] = f
    flaky = []
    for key in sorted(fails):
        f = fails[key]
        try:
            try:
                set_ambient(mod, f['case'])
                mod.check(f['case'])
                v = None
            except Reject:
                v = None
            except Violation as vv:
                v = vv
        except BaseException as e:
            harness.append((''.join(traceback.format_exception(type(e), e, e.__traceback__)),
                            'confirming failure %s' % key))
            continue
        if v is None:
            flaky.append(key)
            continue
        f['key'] = v.key
        f['what'] = str(v)
        if v.key in known:
            known_hits[v.key] = known[v.key]
            continue
        p = _write_replay(pid, f)
        violations.append((v.key, str(v), p))
    if flaky:
        harness.append(('failing case did not reproduce when replayed directly (flaky check): %s'
                        % flaky, ''))

    # -- evidence --------------------------------------------------------------------------------
    drivers = mod.drivers(a.tier)
    subspaces = [dict(name=d['name'], bound=d.get('bound', ''),
                      count=per_driver.get(d['name'], [0])[0])
                 for d in drivers if d['kind'] == 'enum' and d.get('exhaustive')]
    all_exh = bool(drivers) and all(d['kind'] == 'enum' and d.get('exhaustive') for d in drivers)
    wall = time.time() - t0
    if not a.no_evidence:
        ev = dict(
            property_id=pid, tier=a.tier, seed=seed, level=getattr(mod, 'LEVEL', 'exploration'),
            coverage=dict(
                evaluations=int(evals), distinct_nontrivial=int(len(nt)),
                rule=mod.RULE, samples=samples,
                classes=dict(sorted(labels.items())),
                rejected=int(rejected), excluded_known=int(excluded),
                stateful_steps=int(steps),
                drivers={k: dict(cases=v[0], wall_s=round(v[1], 2))
                         for k, v in per_driver.items()},
                exhaustive_subspaces=subspaces, exhaustive=all_exh,
                saved_cases_replayed=n_regress,
                shrunk_failures=[dict(key=k, what=w[:300], replay=str(p)) for k, w, p in violations],
                known_findings_seen=sorted(known_hits), notes=notes,
                workers=nshards, repo=str(env.REPO)),
            assumptions=list(getattr(mod, 'ASSUMPTIONS', [])) + [
                'NumPy as reference semantics for indexing/arithmetic',
                'in-process shim binding numpy.lib.format._check_version/_write_array_header to '
                'numpy.lib._format_impl (NumPy >= 2)'],
            wall_s=round(wall, 2), violations=len(violations))
        edir = VERIF_DIR / 'evidence'
        edir.mkdir(exist_ok=True)
        (edir / ('%s.json' % pid)).write_text(
            json.dumps(ev, indent=1, default=_json_default) + '\n')

    # -- report -----------------------------------------------------------------------------------
    print('%s tier=%s seed=%d cases=%d distinct_nontrivial=%d rejected=%d wall=%.1fs' %
          (pid, a.tier, seed, evals, len(nt), rejected, wall))
    for n in notes:
        print('NOTE: %s' % n)
    for key in sorted(known_hits):
        print('KNOWN-FINDING: property=%s %s %s' % (pid, key, known_hits[key]))
    if harness:
        for text, case in harness[:3]:
            sys.stderr.write(text + '\n')
            if case:
                sys.stderr.write('  while running: %s\n' % case)
        print('HARNESS-ERROR property=%s (%d)' % (pid, len(harness)))
    for key, what, p in violations:
        print('  %s' % what[:600])
        try:
            rp = Path(p).resolve().relative_to(VERIF_DIR)
        except ValueError:
            rp = p
        print('VIOLATION property=%s replay=%s' % (pid, rp))
    if violations:
        return 1
    if harness:
        return 2
    return 0
