# -*- coding: utf-8 -*-
"""Process environment for the checks: repo path, NumPy compatibility shim, quiet logging,
scratch directories.  Imported before anything from phylib."""

import atexit
import logging
import os
import shutil
import sys
import tempfile
import warnings
from contextlib import contextmanager
from pathlib import Path

VERIF_DIR = Path(__file__).resolve().parent.parent
REPO = Path(os.environ.get('VERIF_REPO', '/repo')).resolve()

# Third-party packages installed by setup.sh if /venv lacked them (normally empty).
_deps = VERIF_DIR / '.deps'
if _deps.is_dir():
    sys.path.insert(1, str(_deps))

# The repo under test always wins over any installed/editable copy.
sys.path.insert(0, str(REPO))

# ---------------------------------------------------------------------------------------------
# NumPy >= 2 moved two private helpers that phylib/io/traces.py imports from numpy.lib.format.
# Bind them to the identical functions so that `import phylib.io` works.  Part of the trusted
# base; nothing under /repo changes for this.
# ---------------------------------------------------------------------------------------------
import numpy.lib.format as _fmt  # noqa: E402

if not hasattr(_fmt, '_check_version') or not hasattr(_fmt, '_write_array_header'):
    from numpy.lib import _format_impl as _impl
    for _n in ('_check_version', '_write_array_header'):
        if not hasattr(_fmt, _n):
            setattr(_fmt, _n, getattr(_impl, _n))

import numpy as np  # noqa: E402

warnings.filterwarnings('ignore')
np.seterr(all='ignore')

# tqdm bars and phylib loggers are noise for us.
os.environ.setdefault('TQDM_DISABLE', '1')
logging.disable(logging.CRITICAL)


def import_phylib():
    """Import phylib and make sure it is the tree under test."""
    import phylib
    p = Path(phylib.__file__).resolve()
    if REPO not in p.parents:
        raise RuntimeError('phylib imported from %s, not from %s' % (p, REPO))
    # silence tqdm even if TQDM_DISABLE is not honoured by this tqdm version
    try:
        import tqdm as _tqdm
        import phylib.io.traces as _tr
        import phylib.io.merge as _mg
        import phylib.io.alf as _alf
        import mtscomp as _mt
        def quiet(*a, **kw):
            kw['disable'] = True
            return _tqdm.tqdm(*a, **kw)
        for m in (_tr, _mg, _alf, _mt):
            if hasattr(m, 'tqdm'):
                m.tqdm = quiet
    except Exception:  # pragma: no cover
        pass
    return phylib


# ---------------------------------------------------------------------------------------------
# Scratch directories (tmpfs if possible), one root per process, removed at exit.
# ---------------------------------------------------------------------------------------------
_ROOT = None
_ROOT_PID = None
_COUNTER = [0]


def _base_tmp():
    shm = Path('/dev/shm')
    if shm.is_dir() and os.access(str(shm), os.W_OK):
        return str(shm)
    return tempfile.gettempdir()


def scratch_root():
    global _ROOT, _ROOT_PID
    if _ROOT is None or _ROOT_PID != os.getpid():
        _ROOT = Path(tempfile.mkdtemp(prefix='phylib-verif-%d-' % os.getpid(), dir=_base_tmp()))
        _ROOT_PID = os.getpid()
        atexit.register(shutil.rmtree, str(_ROOT), True)
    return _ROOT


def cleanup_root():
    global _ROOT
    if _ROOT is not None and _ROOT_PID == os.getpid():
        shutil.rmtree(str(_ROOT), ignore_errors=True)
        _ROOT = None


@contextmanager
def scratch():
    """A fresh empty directory for one case, removed afterwards."""
    _COUNTER[0] += 1
    d = scratch_root() / ('c%d' % _COUNTER[0])
    d.mkdir()
    try:
        yield d
    finally:
        shutil.rmtree(str(d), ignore_errors=True)
