# -*- coding: utf-8 -*-
"""C18 - JSON, TSV/CSV and parameter-file serialisation round-trips values and types."""

import keyword
import math

import numpy as np
from hypothesis import strategies as st

from .. import env
from ..core import require, must_return, Violation

env.import_phylib()
from phylib.utils._misc import (  # noqa: E402
    save_json, load_json, read_tsv, write_tsv, _read_tsv_simple, _write_tsv_simple,
    read_python, write_python)

ID = 'C18'
LEVEL = 'exploration'
RULE = (
    "Hypothesis, four case kinds. (json) dicts with keys = non-negative ints and strings that are "
    "not str.isdigit() (the loader documents digit strings -> ints), among them number-like names "
    "such as '2019_01', '12 ', '+5', '1e3'; values from a recursive "
    "strategy over None, bool, int (beyond 2**63), finite and non-finite float, Unicode str, list, "
    "nested dict (string keys, also digit-only ones, which stay strings below the top level), NumPy scalars (bool, ints, floats), ndarrays of bool, (u)int8-64, "
    "float16-64, complex64/128 and big-endian variants, rank 0..3, empty, Fortran-ordered, "
    "negative-stride, strided and transposed. (tsv) row lists over a field alphabet (>=2 columns), "
    "missing fields, empty rows, both delimiters, cells int / float / non-empty strings rejected "
    "by both int() and float() over an alphabet with both delimiters, quotes, spaces, newlines; "
    "first_field present/absent. (simple) two-column tables with arbitrary (negative) ids. (py) "
    "parameter dicts: lower-case identifier keys, int/finite float/bool/None/ASCII strings/NumPy scalars, nested "
    "lists/dicts. Oracle: structural type-exact equality, NaN-aware; ndarray -> same dtype incl. "
    "byte order, shape, values (1-D arrays of <=10 items -> equal list); TSV floats within "
    "0.5e-4 and typed float. Non-trivial: an ndarray that is not C-contiguous or not small-1-D, "
    "or int and str keys together, or a cell containing a delimiter/quote/newline, or a nested "
    "container in a parameter file."
    ' Later additions: number-like string keys, NumPy integer keys, an ASCII-locale sub-process, tuples in parameter files, file extensions in any letter case.')
ASSUMPTIONS = ['Python json/csv modules', 'file text restricted to ASCII for TSV/params '
               '(locale-independent); JSON uses ensure_ascii so full Unicode is generated']

NP_DTYPES = ['bool', 'int8', 'uint8', 'int16', 'uint16', 'int32', 'uint32', 'int64', 'uint64',
             'float16', 'float32', 'float64', 'complex64', 'complex128',
             '>i2', '>u4', '>f4', '>f8', '>c8', '>i8']
SCALAR_DTYPES = ['bool', 'int8', 'uint8', 'int16', 'uint16', 'int32', 'uint32', 'int64',
                 'uint64', 'float16', 'float32', 'float64']


# ---------------------------------------------------------------------------------------------
# tagged value trees <-> Python objects
# ---------------------------------------------------------------------------------------------

def _elem(code, dtype):
    dt = np.dtype(dtype)
    if dt.kind == 'b':
        return bool(code % 2)
    if dt.kind in 'iu':
        info = np.iinfo(dt)
        specials = {900: info.max, 901: info.min}
        if code in specials:
            return specials[code]
        return int(code) % (int(info.max) + 1) if dt.kind == 'u' else \
            max(info.min, min(info.max, int(code)))
    if dt.kind in 'fc':
        specials = {900: float('nan'), 901: float('inf'), 902: float('-inf'), 903: -0.0}
        x = specials.get(code, code / 4.0)
        if dt.kind == 'c':
            return complex(x, specials.get(code + 1, (code % 5) / 2.0))
        return x
    raise ValueError(dtype)


def build_array(spec):
    dt = np.dtype(spec['dtype'])
    shape = tuple(spec['shape'])
    size = int(np.prod(shape)) if shape else 1
    codes = spec['vals'] or [0]
    flat = [_elem(codes[i % len(codes)], dt) for i in range(size)]
    lay = spec['layout']
    with np.errstate(all='ignore'):
        if lay == 'strided' and len(shape) >= 1 and shape[-1] > 0:
            big = np.zeros(shape[:-1] + (shape[-1] * 2,), dtype=dt)
            view = big[..., ::2]
            view[...] = np.array(flat, dtype=dt).reshape(shape)
            return view
        arr = np.array(flat, dtype=dt).reshape(shape)
    if lay == 'F' and len(shape) >= 1:
        return np.asfortranarray(arr)
    if lay == 'rev' and len(shape) >= 1:
        return arr[::-1].copy()[::-1]
    if lay == 'T' and len(shape) >= 2:
        return np.ascontiguousarray(arr.T).T
    return arr


def build(v):
    if isinstance(v, dict):
        tag = v.get('$')
        if tag == 'f':
            return float(v['v'])
        if tag == 'np':
            with np.errstate(all='ignore'):
                return np.dtype(v['dtype']).type(_elem(v['code'], v['dtype']))
        if tag == 'nd':
            return build_array(v)
        if tag == 'dict':
            return {k: build(x) for k, x in v['items']}
        if tag == 'tuple':
            return tuple(build(x) for x in v['items'])
        raise ValueError(v)
    if isinstance(v, list):
        return [build(x) for x in v]
    return v


def expected_json(v):
    obj = build(v)
    return _expected_json_obj(obj)


def _expected_json_obj(obj):
    if isinstance(obj, np.ndarray):
        if obj.ndim == 1 and obj.shape[0] <= 10:
            if obj.dtype.kind == 'c':
                # a list of complex numbers has no JSON form: either representation is accepted
                return _Either(obj.tolist(), obj)
            return obj.tolist()
        return obj
    if isinstance(obj, np.generic):
        return obj.item()
    if isinstance(obj, list):
        return [_expected_json_obj(x) for x in obj]
    if isinstance(obj, dict):
        return {k: _expected_json_obj(x) for k, x in obj.items()}
    return obj


class _Either(object):
    def __init__(self, *alts):
        self.alts = alts


def equal(obs, exp, path='$'):
    """Type-exact structural equality, NaN-aware.  Returns None or a description."""
    if isinstance(exp, _Either):
        rs = [equal(obs, a, path) for a in exp.alts]
        return None if any(r is None for r in rs) else rs[-1]
    if isinstance(exp, np.ndarray):
        if not isinstance(obs, np.ndarray):
            return '%s: expected ndarray, got %s' % (path, type(obs).__name__)
        if obs.dtype != exp.dtype or obs.dtype.byteorder != exp.dtype.byteorder:
            return '%s: dtype %r != %r' % (path, obs.dtype.str, exp.dtype.str)
        if obs.shape != exp.shape:
            return '%s: shape %s != %s' % (path, obs.shape, exp.shape)
        if not np.array_equal(obs, exp, equal_nan=(exp.dtype.kind in 'fc')):
            return '%s: array values differ' % path
        return None
    if isinstance(exp, tuple):
        if type(obs) is not tuple or len(obs) != len(exp):
            return '%s: expected the tuple %r, got %r' % (path, exp, obs)
        for i, (o, e) in enumerate(zip(obs, exp)):
            r = equal(o, e, '%s[%d]' % (path, i))
            if r:
                return r
        return None
    if isinstance(exp, bool) or exp is None:
        return None if (type(obs) is type(exp) and obs == exp) else \
            '%s: %r != %r' % (path, obs, exp)
    if isinstance(exp, int):
        return None if (type(obs) is int and obs == exp) else '%s: %r != %r' % (path, obs, exp)
    if isinstance(exp, float):
        if type(obs) is not float:
            return '%s: expected float, got %r' % (path, obs)
        if math.isnan(exp):
            return None if math.isnan(obs) else '%s: %r != nan' % (path, obs)
        return None if obs == exp else '%s: %r != %r' % (path, obs, exp)
    if isinstance(exp, complex):
        ok = type(obs) is complex and (obs == exp or (obs != obs and exp != exp))
        return None if ok else '%s: %r != %r' % (path, obs, exp)
    if isinstance(exp, str):
        return None if (type(obs) is str and obs == exp) else '%s: %r != %r' % (path, obs, exp)
    if isinstance(exp, list):
        if type(obs) is not list or len(obs) != len(exp):
            return '%s: list mismatch %r != %r' % (path, obs, exp)
        for i, (a, b) in enumerate(zip(obs, exp)):
            r = equal(a, b, '%s[%d]' % (path, i))
            if r:
                return r
        return None
    if isinstance(exp, dict):
        if type(obs) is not dict or set(obs.keys()) != set(exp.keys()) or \
                sorted(map(repr, obs.keys())) != sorted(map(repr, exp.keys())):
            return '%s: keys %r != %r' % (path, sorted(map(repr, obs)) if isinstance(obs, dict)
                                         else obs, sorted(map(repr, exp)))
        for k in exp:
            r = equal(obs[k], exp[k], '%s[%r]' % (path, k))
            if r:
                return r
        return None
    raise TypeError('oracle cannot compare %r' % (exp,))


# ---------------------------------------------------------------------------------------------
# strategies
# ---------------------------------------------------------------------------------------------

_text = st.text(st.characters(blacklist_categories=('Cs',)), max_size=8)
_skey = _text.filter(lambda s: not s.isdigit() and not s.startswith(('$', '__')))
# strings that look like numbers without being str.isdigit(): they are names, not ids
_numlike = st.sampled_from(['2019_01', '12 ', ' 7', '1_0', '+5', '-3', '1e3', '1.0', '0x10', '3\n',
                            '1_000', '7a', '\t4'])
_finite = st.floats(allow_nan=False, allow_infinity=False)
_float = _finite | st.sampled_from(['nan', 'inf', '-inf']).map(lambda s: {'$': 'f', 'v': s})
_int = st.integers(-10, 10) | st.integers(-2 ** 70, 2 ** 70)
_codes = st.lists(st.integers(-40, 40) | st.sampled_from([900, 901, 902, 903]), min_size=1,
                  max_size=6)


@st.composite
def _nd(draw):
    rank = draw(st.integers(0, 3))
    shape = [draw(st.sampled_from([0, 1, 2, 3, 5, 10, 11, 12])) for _ in range(rank)]
    if rank >= 2 and int(np.prod(shape)) > 300:
        shape = [min(s, 5) for s in shape]
    return {'$': 'nd', 'dtype': draw(st.sampled_from(NP_DTYPES)), 'shape': shape,
            'layout': draw(st.sampled_from(['C', 'F', 'rev', 'strided', 'T'])),
            'vals': draw(_codes)}


_npscalar = st.builds(lambda d, c: {'$': 'np', 'dtype': d, 'code': c},
                      st.sampled_from(SCALAR_DTYPES),
                      st.integers(-40, 40) | st.sampled_from([900, 901, 902, 903]))
_npscalar_finite = st.builds(lambda d, c: {'$': 'np', 'dtype': d, 'code': c},
                             st.sampled_from(SCALAR_DTYPES), st.integers(-40, 40))
_leaf = st.none() | st.booleans() | _int | _float | _text | _npscalar | _nd()
_json_value = st.recursive(
    _leaf,
    lambda ch: st.lists(ch, max_size=4) |
    st.lists(st.tuples(_skey | st.sampled_from(['0', '10', '007']), ch), max_size=3,
             unique_by=lambda kv: kv[0]).map(
        lambda items: {'$': 'dict', 'items': [list(kv) for kv in items]}),
    max_leaves=8)


@st.composite
def _json_case(draw):
    n = draw(st.integers(0, 5))
    # integer keys may be NumPy integers of any width (np.unique of an id vector yields them)
    npkey = st.builds(lambda dt, v: {'$k': dt, 'v': v},
                      st.sampled_from(['uint32', 'int64', 'int32', 'uint8', 'uint16', 'int16',
                                       'uint64', 'int8']), st.integers(0, 120))
    keys = draw(st.lists(st.integers(0, 12) | st.integers(0, 2 ** 65) | _skey | _numlike | npkey,
                         min_size=n, max_size=n,
                         unique_by=lambda k: str(k['v']) if isinstance(k, dict) else str(k)))
    return {'k': 'json', 'items': [[k, draw(_json_value)] for k in keys]}


def _nonnumeric(s):
    if not s:
        return False
    for f in (int, float):
        try:
            f(s)
            return False
        except ValueError:
            pass
    return True


_cell_text = st.text(alphabet='ab,\t" \n\'x-.1e_:;Zn', min_size=1, max_size=6).filter(_nonnumeric)
_cell_float = st.floats(-1e6, 1e6, allow_nan=False) | st.floats(allow_nan=False, width=32) | \
    st.sampled_from(['nan', 'inf', '-inf']).map(lambda s: {'$': 'f', 'v': s})
_cell = st.integers(-10 ** 12, 10 ** 12) | _cell_float | _cell_text
FIELDS = ['id', 'cluster_id', 'f1', 'f2', 'zz', 'Amp']


@st.composite
def _tsv_case(draw):
    fields = draw(st.lists(st.sampled_from(FIELDS), min_size=2, max_size=5, unique=True))
    nrows = draw(st.integers(1, 6))
    rows = []
    for _ in range(nrows):
        present = draw(st.lists(st.sampled_from(fields), unique=True, max_size=len(fields)))
        rows.append({f: draw(_cell) for f in present})
    # make sure the union of the fields has >= 2 columns
    union = set().union(*rows)
    for f in fields[:2]:
        if f not in union:
            rows[0][f] = draw(_cell)
    first = draw(st.none() | st.sampled_from(FIELDS))
    return {'k': 'tsv', 'rows': rows,
            'ext': draw(st.sampled_from(['.tsv', '.csv', '.tsv', '.csv', '.TSV', '.Csv', '.Tsv'])),
            'first': first}


@st.composite
def _simple_case(draw):
    n = draw(st.integers(0, 6))
    ids = draw(st.lists(st.integers(-50, 50) | st.integers(-2 ** 40, 2 ** 40), min_size=n,
                        max_size=n, unique=True))
    return {'k': 'simple', 'field': draw(st.sampled_from(['group', 'KSLabel', 'Amplitude', 'n_x'])),
            'data': [[i, draw(_cell)] for i in ids],
            'ext': draw(st.sampled_from(['.tsv', '.csv', '.tsv', '.csv', '.TSV', '.CSV']))}


_ascii = st.text(st.characters(min_codepoint=32, max_codepoint=126), max_size=10)
_ascii_any = st.text(st.characters(min_codepoint=9, max_codepoint=126,
                                   blacklist_characters='\x0b\x0c\x1c\x1d\x1e'), max_size=8)
_top_str = _ascii.filter(lambda s: '"' not in s and '\\' not in s)
_py_atom = st.none() | st.booleans() | _int | _finite
_py_nested = st.recursive(
    _py_atom | _ascii_any,
    lambda ch: st.lists(ch, max_size=4) |
    st.lists(st.tuples(_ascii_any | st.integers(-5, 5), ch), max_size=3,
             unique_by=lambda kv: repr(kv[0])).map(
                 lambda items: {'$': 'dict', 'items': [list(kv) for kv in items]}),
    max_leaves=6)
_ident = st.from_regex(r'[a-z_][a-z0-9_]{0,8}', fullmatch=True).filter(
    lambda s: not keyword.iskeyword(s))


@st.composite
def _py_case(draw):
    n = draw(st.integers(0, 6))
    keys = draw(st.lists(_ident, min_size=n, max_size=n, unique=True))
    # containers only at the top level: a bare top-level string must obey the _top_str domain
    # tuples (dat_shape = (385,), probe sizes ...): one item, several, none
    tup = st.lists(_py_atom | _ascii_any, max_size=3).map(lambda xs: {'$': 'tuple', 'items': xs})
    top = _py_atom | _top_str | _npscalar_finite | tup | st.lists(_py_nested | tup, max_size=4) | \
        st.lists(st.tuples(_ascii_any | st.integers(-5, 5), _py_nested), max_size=3,
                 unique_by=lambda kv: repr(kv[0])).map(
                     lambda items: {'$': 'dict', 'items': [list(kv) for kv in items]})
    return {'k': 'py', 'items': [[k, draw(top)] for k in keys]}


def drivers(tier):
    th = tier == 'thorough'
    m = 36 if th else 3
    return [
        dict(kind='enum', name='locale', exhaustive=False, bound='7 hand-made cases in a '
             'sub-process with LC_ALL=C and UTF-8 mode off', cases=lambda: _locale_cases(th)),
        dict(kind='hyp', name='json', strategy=_json_case(), examples=5000 * m),
        dict(kind='hyp', name='tsv', strategy=_tsv_case(), examples=4000 * m),
        dict(kind='hyp', name='simple', strategy=_simple_case(), examples=3000 * m),
        dict(kind='hyp', name='py', strategy=_py_case(), examples=3000 * m),
    ]


# ---------------------------------------------------------------------------------------------
# checks
# ---------------------------------------------------------------------------------------------

def _check_json(case, d):
    data = {}
    exp = {}
    for k, v in case['items']:
        if isinstance(k, dict):
            data[np.dtype(k['$k']).type(k['v'])] = build(v)
            k = int(k['v'])         # integer keys come back as Python ints
        else:
            data[k] = build(v)
        exp[k] = expected_json(v)
    p = d / 'x.json'
    must_return('save_json', save_json, p, data)
    out = must_return('load_json', load_json, p)
    r = equal(out, exp)
    require(r is None, 'JSON round trip: %s' % r, key='json-roundtrip', observed=out, expected=exp)


def _cell_value(c):
    return build(c)


def _check_cell(obs, c, what, tol):
    exp = _cell_value(c)
    if isinstance(exp, float) and tol is not None:
        ok = type(obs) is float and (
            (math.isnan(exp) and math.isnan(obs)) or obs == exp or
            abs(obs - exp) <= tol + 1e-12 * abs(exp))
        require(ok, '%s: float cell %r read back as %r' % (what, exp, obs), key='tsv-float',
                observed=obs, expected=exp)
    else:
        r = equal(obs, exp)
        require(r is None, '%s: cell %r read back as %r' % (what, exp, obs), key='tsv-cell',
                observed=obs, expected=exp)


def _check_tsv(case, d):
    rows = [{f: _cell_value(c) for f, c in row.items()} for row in case['rows']]
    p = d / ('table' + case['ext'])
    must_return('write_tsv', write_tsv, p, rows, first_field=case['first'])
    out = must_return('read_tsv', read_tsv, p)
    require(isinstance(out, list) and len(out) == len(rows), 'row count changed', key='tsv-rows',
            observed=out, expected=rows)
    for i, (o, row) in enumerate(zip(out, case['rows'])):
        require(set(o.keys()) == set(row.keys()), 'row %d: fields differ (absent fields must be '
                'omitted)' % i, key='tsv-fields', observed=o, expected=row)
        for f, c in row.items():
            _check_cell(o[f], c, 'row %d field %s' % (i, f), 0.5e-4)
    # header order: requested first column first, the rest sorted
    with open(p, newline='') as fh:
        line = fh.readline().rstrip('\r\n')
    # (whichever of the two delimiters the writer chose for this extension)
    header = line.split('\t' if '\t' in line else ',')
    fields = sorted(set().union(*[set(r) for r in case['rows']]))
    if case['first'] in fields:
        fields.remove(case['first'])
        fields = [case['first']] + fields
    require(header == fields, 'header order', key='tsv-header', observed=header, expected=fields)


def _check_simple(case, d):
    data = {i: _cell_value(c) for i, c in case['data']}
    p = d / ('cluster_x' + case['ext'])
    must_return('_write_tsv_simple', _write_tsv_simple, p, case['field'], data)
    out = must_return('_read_tsv_simple', _read_tsv_simple, p)
    require(isinstance(out, tuple) and len(out) == 2, 'not a (field, data) pair', key='simple-type',
            observed=out)
    field, got = out
    require(field == case['field'], 'field name changed', key='simple-field', observed=field)
    require(sorted(got.keys()) == sorted(data.keys()) and all(type(k) is int for k in got),
            'cluster ids changed', key='simple-ids', observed=sorted(got), expected=sorted(data))
    for i, c in case['data']:
        _check_cell(got[i], c, 'id %d' % i, None)


def _check_py(case, d):
    data = {k: build(v) for k, v in case['items']}
    exp = {k: (v.item() if isinstance(v, np.generic) else v) for k, v in data.items()}
    p = d / 'params.py'
    must_return('write_python', write_python, p, data)
    out = must_return('read_python', read_python, p)
    r = equal(out, exp)
    require(r is None, 'parameter file round trip: %s' % r, key='py-roundtrip', observed=out,
            expected=exp)


def _locale_cases(th):
    # text outside ASCII under an ASCII (C / POSIX) locale with Python's UTF-8 mode off
    vals = ['caf\u00e9', '\u00b5V', '\u65e5\u672c\u8a9e', 'na\u00efve \U0001f9e0', 'plain']
    for i, v in enumerate(vals):
        yield {'k': 'locale', 'case': {'k': 'json', 'items': [[v, [v, 1, None]], ['k%d' % i, v],
                                                               [3, {'$': 'dict', 'items': [[v, 2.5]]}]]}}
    yield {'k': 'locale', 'case': {'k': 'tsv', 'rows': [{'id': 1, 'f1': 'good'}, {'id': 2, 'f1': 'x y'}],
                                   'ext': '.tsv', 'first': 'id'}}
    yield {'k': 'locale', 'case': {'k': 'py', 'items': [['a', 1], ['b', 'text'], ['c', [1, 2.5]]]}}


_LOCALE_SCRIPT = (
    "import sys, json\n"
    "from pbt import core\n"
    "from pbt.props import c18\n"
    "case = json.loads(sys.argv[1])\n"
    "try:\n"
    "    c18.check(case)\n"
    "except core.Violation as v:\n"
    "    print('VIOLATION::' + str(v)[:500]); sys.exit(3)\n")


def _check_locale(case):
    import json
    import os
    import subprocess
    import sys
    from pathlib import Path
    root = str(Path(__file__).resolve().parents[2])
    envv = dict(os.environ, LC_ALL='C', LANG='C', PYTHONUTF8='0', PYTHONCOERCECLOCALE='0',
                PYTHONPATH=root + os.pathsep + os.environ.get('PYTHONPATH', ''),
                PYTHONIOENCODING='utf-8')
    envv.pop('PYTHONPYCACHEPREFIX', None)
    envv['PYTHONDONTWRITEBYTECODE'] = '1'
    p = subprocess.run([sys.executable, '-X', 'utf8=0', '-c', _LOCALE_SCRIPT,
                        json.dumps(case['case'])], env=envv, capture_output=True, text=True,
                       timeout=300)
    if p.returncode == 3:
        msg = [ln for ln in p.stdout.splitlines() if ln.startswith('VIOLATION::')]
        raise Violation('under an ASCII locale: ' + (msg[0][11:] if msg else '?'),
                        key='ascii-locale')
    if p.returncode != 0:
        raise RuntimeError('locale sub-process failed: %s' % (p.stderr[-800:],))


def check(case):
    if case['k'] == 'locale':
        return _check_locale(case)
    with env.scratch() as d:
        k = case['k']
        if k == 'json':
            _check_json(case, d)
        elif k == 'tsv':
            _check_tsv(case, d)
        elif k == 'simple':
            _check_simple(case, d)
        elif k == 'py':
            _check_py(case, d)
        else:
            raise ValueError(k)


def _walk(v):
    yield v
    if isinstance(v, list):
        for x in v:
            for y in _walk(x):
                yield y
    elif isinstance(v, dict) and v.get('$') == 'dict':
        for _, x in v['items']:
            for y in _walk(x):
                yield y


def classify(case, info):
    k = case['k']
    labels = [k]
    nt = False
    if k == 'locale':
        return ['locale:ascii:' + case['case']['k']], True
    if k == 'json':
        kinds = set(type(key).__name__ for key, _ in case['items'])
        if 'dict' in kinds:
            labels.append('json:numpy-integer-keys')
            kinds = (kinds - {'dict'}) | {'int'}
        if kinds == {'int', 'str'}:
            labels.append('json:mixed-keys')
            nt = True
        for _, v in case['items']:
            for x in _walk(v):
                if isinstance(x, dict) and x.get('$') == 'nd':
                    small = len(x['shape']) == 1 and x['shape'][0] <= 10
                    labels.append('json:nd-small1d' if small else 'json:nd-b64')
                    if x['layout'] != 'C' or not small:
                        nt = True
                    if x['layout'] != 'C':
                        labels.append('json:nd-layout-' + x['layout'])
                    if x['dtype'].startswith('>'):
                        labels.append('json:nd-bigendian')
                    if 'complex' in x['dtype'] or 'c8' in x['dtype']:
                        labels.append('json:nd-complex')
                    if 0 in x['shape']:
                        labels.append('json:nd-empty')
                elif isinstance(x, dict) and x.get('$') == 'np':
                    labels.append('json:npscalar')
                elif isinstance(x, dict) and x.get('$') == 'dict':
                    labels.append('json:nested-dict')
        labels = sorted(set(labels))
    elif k in ('tsv', 'simple'):
        cells = [c for row in case['rows'] for c in row.values()] if k == 'tsv' else \
            [c for _, c in case['data']]
        if any(isinstance(c, str) and any(ch in c for ch in ',\t"\n') for c in cells):
            labels.append(k + ':special-char-cell')
            nt = True
        if k == 'tsv' and any(not row for row in case['rows']):
            labels.append('tsv:empty-row')
        if k == 'tsv' and case['first'] is not None:
            labels.append('tsv:first-field')
        if any(isinstance(c, float) or isinstance(c, dict) for c in cells):
            labels.append(k + ':float-cell')
        labels.append(k + case['ext'])
    else:
        if any(isinstance(v, (list, dict)) for _, v in case['items']):
            labels.append('py:nested')
            nt = True
        if any(isinstance(v, str) for _, v in case['items']):
            labels.append('py:top-string')
    return labels, nt
