# -*- coding: utf-8 -*-
"""C17, model level: the selection made by TemplateModel.save_spikes_subset_waveforms (the use of
SpikeSelector the property is anchored in) honours the chunk and count constraints."""

import numpy as np
from hypothesis import strategies as st

from .. import env, core, datasets as D
from ..core import require, must_return

env.import_phylib()


@st.composite
def strategy(draw):
    spec = draw(D.dataset_spec(raw=True, dense=True, features=False, tfeatures=False, naming='ks',
                               curated=None, max_nc=6, raw_backends=('flat', 'npy', 'cbin')))
    # more than 20 chunks (so that the stride is >= 2) and a sample rate different from 1
    c = max(2, spec['n_raw'] // draw(st.sampled_from([25, 30, 45])))
    spec['raw']['chunk'] = c
    spec['rate'] = c / 600.0
    return {'k': 'model', 'spec': spec, 'max_per_template': draw(st.integers(2, 6)),
            'np_seed': draw(st.integers(0, 2 ** 31 - 1)), 'export': draw(st.booleans())}


def check(case):
    spec = case['spec']
    info = {}
    with env.scratch() as d:
        T = D.build(spec, d / 'ds')
        m = D.load(T, must_return)
        mt = getattr(getattr(m, 'traces', None), 'reader', None)
        try:
            mpt = case['max_per_template']
            if D.store_selection_size(T, m, mpt) < 2:
                raise core.Reject('store would hold < 2 spikes (squeeze degeneracy)')
            bounds = [int(x) for x in m.traces.chunk_bounds]
            np.random.seed(case['np_seed'])
            must_return('save_spikes_subset_waveforms', m.save_spikes_subset_waveforms,
                        max_n_spikes_per_template=mpt, max_n_channels=2)
            iv = D.kept_chunk_intervals(bounds)
            info['n_chunks'] = len(bounds) - 1
            _selection(T, np.load(T.dir / '_phy_spikes_subset.spikes.npy').tolist(), iv, mpt, '')
            if case.get('export') and spec['raw']['backend'] != 'cbin' and spec['amplitudes']:
                # the ALF export makes its own selection (500 per template), whatever was
                # extracted before; the exported spike list obeys the same constraints
                from phylib.io.alf import EphysAlfCreator, NSAMPLE_WAVEFORMS
                np.random.seed(case['np_seed'] + 1)
                om = must_return('convert', EphysAlfCreator(m).convert, d / 'alf')
                try:
                    _selection(T, np.load(d / 'alf' / '_phy_spikes_subset.spikes.npy').tolist(),
                               iv, NSAMPLE_WAVEFORMS, ' (selection exported by convert())')
                    info['exported'] = True
                finally:
                    try:
                        om.close()
                    except Exception:
                        pass
        finally:
            m.close()
            if mt is not None:
                try:
                    mt.close()
                except Exception:
                    pass
    return info


def _selection(T, ids, iv, mpt, sfx):
    samples = [int(x) for x in T.samples]
    require(all(b > a for a, b in zip(ids, ids[1:])), 'selected spike ids not strictly '
            'increasing' + sfx, key='model-sel-increasing', observed=ids)
    bad = [i for i in ids if not any(a <= samples[i] < b for a, b in iv)]
    require(not bad, 'selected spike outside the kept chunks' + sfx, key='model-sel-chunk',
            observed=(bad, [samples[i] for i in bad]), expected=iv)
    for t in sorted(set(int(x) for x in T.spike_templates)):
        elig = [i for i in range(len(samples)) if int(T.spike_templates[i]) == t and
                any(a <= samples[i] < b for a, b in iv)]
        got = [i for i in ids if int(T.spike_templates[i]) == t]
        if len(elig) <= mpt:
            require(got == elig, 'not all eligible spikes of template %d selected%s' % (t, sfx),
                    key='model-sel-all', observed=got, expected=elig)
        else:
            require(len(got) == mpt and set(got) <= set(elig),
                    'over-subscribed template %d: wrong number of spikes%s' % (t, sfx),
                    key='model-sel-count', observed=got, expected=(mpt, elig))


def classify(case, info):
    labels = ['model', 'model:chunks>20' if info.get('n_chunks', 0) > 20 else 'model:chunks<=20']
    if info.get('exported'):
        labels.append('model:selection-of-the-alf-export')
    return labels, info.get('n_chunks', 0) > 20
