# -*- coding: utf-8 -*-
"""C12 - merged channel and template arrays are block-structured by probe."""

import numpy as np
from hypothesis import strategies as st

from .. import env, core, datasets as D, merging as G
from ..core import require, must_return, same_array, Violation
from .c11 import infer_offsets

env.import_phylib()
from phylib.utils._misc import read_python  # noqa: E402

ID = 'C12'
LEVEL = 'exploration'
KNOWN = core.load_known(ID)
F13_KEY = 'probes-not-apart:zero-width-then-x0'
RULE = (
    "Hypothesis: 1..4 probes (k>=3 in about 40% of the cases) with different channel counts "
    "(2-6), template counts (2-4, in 1 case of 8 a probe with 33-70 templates) and waveform contents, permuted channel maps (also into a larger "
    "raw file), non-negative probe coordinates (generic / grid / single column), index tables of "
    "int32 and uint32 dtype mixed between probes, whitening / inverse whitening / similarity "
    "matrices present in all or only some probes. Oracle: channels of probe k occupy the index "
    "block [C_k, C_k+nc_k) (C_k = cumulative channel counts) in input order: channel_map there = "
    "input + a per-probe constant, channel_probe == k, positions == input + (dx_k, 0) and the "
    "x-intervals of different probes are disjoint; for every template t of probe k that is "
    "referenced by a spike, row t + Toff_k of templates.npy (Toff_k = the offset the merged spike "
    "templates carry) holds T_k[t] on block k and zeros elsewhere, and templates.npy has sum(nt_k) "
    "rows; pc_feature_ind rows of probe k = input + C_k; template_feature_ind rows = input + "
    "Toff_k; each of whitening / inverse / similarity, when every probe has it, is written and "
    "equals the block-diagonal arrangement of the per-probe matrices; params.py keeps sample_rate "
    "and declares the summed n_channels_dat. The known finding F13 (zero-width probe followed by "
    "a probe starting at x == 0) is excluded by construction and counted. Whitening matrices are general, lower / upper triangular or diagonal (all probes alike, or mixed). "
    "Half of the cases merge the same probes a second time in the same "
    "process (a new Merger, or merge() called again on the same object) and verify again. Non-trivial: >=3 probes or unequal channel/template counts."
    ' Later additions: merge() again on the same Merger, the probes merged in reverse order over '
    'the earlier output, write_templates() on its own, relative probe paths, (1, n) channel vecto'
    'rs, mixed template dtypes.')
ASSUMPTIONS = ['merging requires amplitudes.npy, pc_feature_ind.npy, template_feature_ind.npy and '
               'spike_clusters.npy in every probe', 'index tables have the same width in every '
               'probe (otherwise they cannot be stacked)']


@st.composite
def _case(draw):
    c = draw(G.merge_case(exclude_f13=F13_KEY in KNOWN, big_templates=True))
    # half of the cases: the same probes are merged a second time in the same process
    c['again'] = draw(st.sampled_from([False, True, True, 'same-merger', 'reversed-same-dir']))
    return c


def drivers(tier):
    th = tier == 'thorough'
    return [dict(kind='hyp', name='merges', strategy=_case(), examples=60000 if th else 6000)]


def _blockdiag(mats):
    n = sum(m.shape[0] for m in mats)
    k = sum(m.shape[1] for m in mats)
    out = np.zeros((n, k), dtype=np.result_type(*[m.dtype for m in mats]))
    i = j = 0
    for m in mats:
        out[i:i + m.shape[0], j:j + m.shape[1]] = m
        i += m.shape[0]
        j += m.shape[1]
    return out


def _verify(Ts, out, info):
    """All C12 clauses for the files one merge of Ts wrote into out."""
    K = len(Ts)
    ncs = [T.spec['nc'] for T in Ts]
    nts = [T.spec['nt'] for T in Ts]
    C = [0] + np.cumsum(ncs).tolist()
    # -- channels ------------------------------------------------------------------------
    cm = np.load(out / 'channel_map.npy')
    cpb = np.load(out / 'channel_probe.npy')
    pos = np.load(out / 'channel_positions.npy')
    require(cm.shape == (C[-1],) and cpb.shape == (C[-1],) and pos.shape == (C[-1], 2),
            'merged channel arrays do not have sum(nc) rows', key='channel-count',
            observed=(cm.shape, cpb.shape, pos.shape), expected=C[-1])
    xr = []
    for k, T in enumerate(Ts):
        blk = slice(C[k], C[k + 1])
        diff = cm[blk].astype(np.int64) - T.chmap.astype(np.int64)
        require(np.all(diff == diff[0]), 'channel_map block of probe %d is not the input map '
                'plus a constant' % k, key='channel-map-block', observed=cm[blk],
                expected=T.chmap)
        require(np.all(cpb[blk] == k), 'channel_probe of probe %d' % k, key='channel-probe',
                observed=cpb, expected=k)
        dx = pos[blk, 0] - T.pos[:, 0]
        require(np.allclose(dx, dx[0], rtol=0, atol=1e-9) and
                np.array_equal(pos[blk, 1], T.pos[:, 1]),
                'positions of probe %d are not the input geometry translated along x' % k,
                key='positions-geometry', observed=pos[blk], expected=T.pos)
        xr.append((float(pos[blk, 0].min()), float(pos[blk, 0].max())))
    # probes are laid out left to right, so consecutive pairs decide
    for i in range(K - 1):
        apart = xr[i][1] < xr[i + 1][0]
        # the recorded finding F13 is exactly: zero x-extent followed by a probe starting at 0
        f13 = G.needs_f13_shift(Ts[i].pos.tolist(), Ts[i + 1].pos.tolist())
        require(apart, 'x translation does not keep probes %d and %d apart' % (i, i + 1),
                key=F13_KEY if f13 else 'probes-not-apart', observed=xr)
    # -- templates -----------------------------------------------------------------------
    tp = np.load(out / 'templates.npy')
    nsw = Ts[0].spec['nsw']
    require(tp.shape == (sum(nts), nsw, C[-1]), 'templates.npy shape', key='templates-shape',
            observed=tp.shape, expected=(sum(nts), nsw, C[-1]))
    order = G.expected_order(Ts)
    mt = np.load(out / 'spike_templates.npy')
    toff = infer_offsets(order, Ts, mt, 'spike_templates', 'spike_templates')
    info['toff'] = toff
    for k, T in enumerate(Ts):
        for t in sorted(set(int(x) for x in T.spike_templates)):
            row = t + toff[k]
            require(row < tp.shape[0], 'template row out of range', key='templates-row',
                    observed=row)
            exp = np.zeros((nsw, C[-1]), dtype=tp.dtype)
            exp[:, C[k]:C[k + 1]] = T.templates[t]
            same_array('template %d of probe %d at its offset index %d (own channel block, '
                       'zeros elsewhere)' % (t, k, row), tp[row], exp, key='templates-block',
                       dtype=False)
    # -- index tables ----------------------------------------------------------------------
    pfi = np.load(out / 'pc_feature_ind.npy')
    tfi = np.load(out / 'template_feature_ind.npy')
    R = [0] + np.cumsum(nts).tolist()
    require(pfi.shape[0] == R[-1] and tfi.shape[0] == R[-1], 'index tables row count',
            key='ind-rows', observed=(pfi.shape, tfi.shape), expected=R[-1])
    for k, T in enumerate(Ts):
        rows = slice(R[k], R[k + 1])
        same_array('pc_feature_ind rows of probe %d == input + cumulative channel count' % k,
                   pfi[rows].astype(np.int64), T.pcf_ind.astype(np.int64) + C[k],
                   key='pc-feature-ind')
        same_array('template_feature_ind rows of probe %d == input + template offset' % k,
                   tfi[rows].astype(np.int64), T.tf_ind.astype(np.int64) + toff[k],
                   key='template-feature-ind')
    # -- matrices ----------------------------------------------------------------------------
    for fn, attr in (('whitening_mat.npy', 'wm'), ('whitening_mat_inv.npy', 'wmi_file'),
                     ('similar_templates.npy', 'sim')):
        mats = [getattr(T, attr) for T in Ts]
        p = out / fn
        if all(m is not None for m in mats):
            require(p.exists(), '%s not written although every probe has it' % fn,
                    key='matrix-missing')
            same_array('%s is block-diagonal with the per-probe matrices' % fn, np.load(p),
                       _blockdiag(mats), key='matrix-blockdiag', dtype=False)
            info['matrix_all'] = True
        elif any(m is not None for m in mats):
            info['matrix_some'] = True
            if p.exists():
                got = np.load(p)
                # computed by the merged model when loading is allowed for the inverse only
                if fn != 'whitening_mat_inv.npy':
                    raise Violation('%s written although a probe lacks it' % fn,
                                    key='matrix-partial', observed=got.shape)
    # -- params -----------------------------------------------------------------------------
    prm = must_return('read merged params.py', read_python, out / 'params.py')
    require(float(prm['sample_rate']) == float(Ts[0].rate), 'merged sample_rate',
            key='params-rate', observed=prm.get('sample_rate'), expected=Ts[0].rate)
    require(int(prm['n_channels_dat']) == sum(T.spec['ncd'] for T in Ts),
            'merged n_channels_dat is not the sum', key='params-ncd',
            observed=prm.get('n_channels_dat'), expected=sum(T.spec['ncd'] for T in Ts))


def check(case):
    if core.RUN is not None:
        core.RUN.excluded_known += case.get('f13_excluded', 0)
    info = {}
    with env.scratch() as d:
        Ts = G.build_probes(case, d)
        for out in [G.out_dir_for(case, d)] + ([d / 'merged2'] if case.get('again') is True else []):
            merger, model = G.run_merge(Ts, out, must_return,
                                        rel_root=d if case.get('rel') else None)
            try:
                model.close()
            except Exception:
                pass
            _verify(Ts, out, info)
            if case.get('again') is False and len(Ts) >= 2:
                # the template step on its own, on a new Merger and a new folder: same rows
                from phylib.io.merge import Merger
                out3 = d / 'templates-only'
                m3 = must_return('Merger()', Merger, [T.dir for T in Ts], out3)
                must_return('Merger.write_templates() (called on its own)', m3.write_templates)
                tp3 = np.load(out3 / 'templates.npy')
                same_array('templates.npy written by write_templates() alone vs the one written '
                           'by merge()', tp3, np.load(out / 'templates.npy'),
                           key='templates-direct-route')
                info['direct_templates'] = True
            if case.get('again') == 'reversed-same-dir' and len(Ts) >= 2:
                # the probes are merged again, in the opposite order, over the earlier output
                Tr = Ts[::-1]
                if any(G.needs_f13_shift(a.pos.tolist(), b.pos.tolist())
                       for a, b in zip(Tr, Tr[1:])) and F13_KEY in KNOWN:
                    continue        # the reversed order would be the recorded finding F13
                merger, model = G.run_merge(Tr, out, must_return)
                try:
                    model.close()
                except Exception:
                    pass
                _verify(Tr, out, info)
            if case.get('again') == 'same-merger':
                # merge() is called again on the same Merger object (same output directory)
                with G.in_dir(d if case.get('rel') else None):
                    model = must_return('Merger.merge() (second call on the same object)',
                                        merger.merge)
                try:
                    model.close()
                except Exception:
                    pass
                _verify(Ts, out, info)
    return info


def classify(case, info):
    ps = case['probes']
    labels = ['probes:%d' % len(ps)]
    nt = False
    if len(ps) >= 3:
        nt = True
    if len(set(p['nc'] for p in ps)) > 1:
        labels.append('unequal-channel-counts')
        nt = True
    if len(set(p['nt'] for p in ps)) > 1:
        labels.append('unequal-template-counts')
        nt = True
    if info.get('matrix_all'):
        labels.append('matrix-in-all-probes')
    if info.get('matrix_some'):
        labels.append('matrix-in-some-probes')
    if any(p['pcf']['ind_dtype'] == 'uint32' for p in ps[1:]):
        labels.append('uint32-index-table-in-later-probe')
    if any(p['chmap'] != sorted(p['chmap']) for p in ps):
        labels.append('permuted-channel-map')
    if any(max(p['spike_templates']) < p['nt'] - 1 for p in ps[:-1]):
        labels.append('non-last-probe-highest-template-unused')
    if case.get('f13_excluded'):
        labels.append('f13-shape-excluded')
    if case.get('again'):
        labels.append('second-merge-in-process' + ('' if case['again'] is True else
                                                   ':' + str(case['again'])))
    if case.get('rel'):
        labels.append('relative-probe-paths')
    if info.get('direct_templates'):
        labels.append('write_templates-called-on-its-own')
    kinds = set(p.get('wm_kind') for p in ps if p['wm'])
    if kinds - {None}:
        labels.append('triangular-or-diagonal-whitening')
    if any(p['nt'] > 32 for p in ps):
        labels.append('probe-with->32-templates')
    return labels, nt
