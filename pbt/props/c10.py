# -*- coding: utf-8 -*-
"""C10 - saved curation state survives any save/reload history."""

import math
import os
import sys

import numpy as np
from hypothesis import strategies as st
from hypothesis.stateful import rule, precondition, initialize

from .. import env, core, datasets as D
from ..core import require, must_return, same_array, Violation, Reject

env.import_phylib()
from phylib.io.model import load_model  # noqa: E402

from .c04 import DIRNAMES  # noqa: E402

ID = 'C10'
LEVEL = 'exploration'
FIELDS = ['group', 'quality', 'n_x', 'KSLabel', 'i', 'inf', 'ks.label', 'ks.amp']
RULE = (
    "Hypothesis RuleBasedStateMachine; the case is (dataset spec, operation trace). Datasets: KS "
    "or ALF names, dense or sparse templates, raw data present (flat/npy/cbin, chunk length small "
    "enough that the 20-chunk sub-selection bites), 2-40 spikes. Rules: save_spike_clusters "
    "(generated merge/split/reassign/skip applied to the last saved vector, or an earlier saved / "
    "the loaded vector again, saved as int32/int64/uint32), save_metadata(field, mapping) with values in ints, floats (incl. "
    "int-valued, nan), non-empty non-numeric strings that may contain tab, comma, quotes and "
    "spaces, None; write_foreign(file, kind) with kind in {valid TSV, valid CSV, empty file, "
    "header only, ragged rows, no cluster_id column, non-integer ids, binary garbage, generated "
    "byte strings (fragments of headers, delimiters, quotes, NULs, invalid UTF-8), a stray quote followed by >128 KiB, a 200 kB field, "
    "cluster_info.tsv redefining a saved field (must be ignored), an old-style CSV redefining saved fields (read before the TSV files, so the saved mapping wins)} - fields of foreign files are "
    "disjoint from saved field names and from each other; save_spikes_subset_waveforms(max per "
    "template, max channels, unit factor); close; reload. Steps <= 10 (quick) / 25 (thorough). "
    "Oracle: dictionary reference model {last saved clusters, field -> mapping without None, "
    "valid foreign fields, store parameters}; after every reload: spike_clusters, every saved "
    "field (typing exact: int vs float vs str), valid foreign fields, spike "
    "templates/samples/times, merge map and cluster count of the reloaded pair, and - if a store "
    "exists - increasing stored ids inside kept chunks, at most max per template, each stored "
    "waveform on its stored channels == raw window x factor. Non-trivial: >=2 saves of one kind "
    "before a reload, or a reload after a malformed foreign file, or a store export followed by a "
    "re-clustering and a reload."
    ' Later additions: relative dataset path followed by chdir, directory names with glob charact'
    'ers, symlinked files, an earlier assignment saved again, dotted field names, a legacy cluste'
    'r_<field>.csv with another column, files beyond the csv field limit, get_waveforms on all st'
    'ored spikes compared with the store files.')
ASSUMPTIONS = ['Python csv module', 'mtscomp as codec']


def _nonnumeric(s):
    if not s:
        return False
    for f in (int, float):
        try:
            f(s)
            return False
        except ValueError:
            pass
    return True


_str_val = st.text(alphabet='ab\t," \'xZ-.1', min_size=1, max_size=5).filter(_nonnumeric)
_value = st.one_of(st.integers(-5, 50), st.floats(-100, 100, allow_nan=False),
                   st.sampled_from([2.0, 'nan']), _str_val, st.none())
_mapping = st.lists(st.tuples(st.integers(0, 30), _value), max_size=5,
                    unique_by=lambda kv: kv[0]).map(lambda kv: [list(x) for x in kv])
FOREIGN_KINDS = ['tsv', 'csv', 'empty', 'header', 'ragged', 'nocid', 'strids', 'binary', 'info',
                 'fuzz', 'fuzz', 'csvdup', 'csvstem', 'bigquote', 'bigfield']


def _val(v):
    return float('nan') if v == 'nan' else v


def _same_value(a, b):
    if isinstance(b, float):
        return type(a) is float and ((math.isnan(a) and math.isnan(b)) or a == b)
    return type(a) is type(b) and a == b


class Interp(object):
    def __init__(self, case):
        self._cm = env.scratch()
        self.root = self._cm.__enter__()
        try:
            self.spec = case['init']['spec']
            self.T = D.build(self.spec, self.root / case['init'].get('dirname', 'ds'))
            self.rel = bool(case['init'].get('rel'))
            self._cwd = os.getcwd()
            self.m = self._load('load_model')
        except BaseException:
            if getattr(self, '_cwd', None):
                os.chdir(self._cwd)
            self._cm.__exit__(None, None, None)
            raise
        self.live = True
        T = self.T
        # reference model
        self.clusters = [int(x) for x in T.spike_clusters]
        self.history = [list(self.clusters)]
        self.meta = {}
        self.foreign = {}           # file name -> {field: {cid: value}} for valid files
        self.store = None
        self.stats = dict(saves={'clusters': 0, 'meta': 0}, double_save=False, malformed=False,
                          reload_after_malformed=False, store_then_recluster_reload=False,
                          reloads=0, _since={'clusters': 0, 'meta': 0}, _store_then_recluster=False)
        self._verify()

    # -- helpers ----------------------------------------------------------------------------
    def _load(self, what):
        if not self.rel:
            return must_return(what, load_model, self.T.params_path)
        # the dataset is opened by a relative path; afterwards the process works elsewhere
        os.chdir(str(self.root))
        try:
            m = must_return(what, load_model, os.path.join(self.T.dir.name, 'params.py'))
        finally:
            away = self.root / 'elsewhere'
            away.mkdir(exist_ok=True)
            os.chdir(str(away))
        return m

    def _mt_close(self, m):
        mt = getattr(getattr(m, 'traces', None), 'reader', None)
        if mt is not None:
            try:
                mt.close()
            except Exception:
                pass

    def _need_live(self):
        if not self.live:
            raise Reject('model is closed')

    # -- operations -------------------------------------------------------------------------
    def step(self, op):
        o = op['op']
        if o == 'save_clusters':
            self._need_live()
            new = D.apply_curation(self.clusters, op['ops']) if op['ops'] else list(self.clusters)
            if op.get('back') is not None:
                # undo: an earlier assignment (the loaded one is number 0) is saved again
                new = list(self.history[op['back'] % len(self.history)])
                self.stats['resaved_earlier'] = True
            must_return('save_spike_clusters', self.m.save_spike_clusters,
                        np.array(new, dtype=op['dtype']))
            self.clusters = new
            self.history.append(list(new))
            self._saved('clusters')
            if self.store is not None:
                self.stats['_store_then_recluster'] = True
        elif o == 'save_metadata':
            self._need_live()
            mapping = {int(k): _val(v) for k, v in op['mapping']}
            must_return('save_metadata', self.m.save_metadata, op['field'], mapping)
            self.meta[op['field']] = {k: v for k, v in mapping.items() if v is not None}
            self._saved('meta')
        elif o == 'foreign':
            self._write_foreign(op)
        elif o == 'export':
            self._need_live()
            m = self.m
            m.n_closest_channels = op['ncc']
            if D.store_selection_size(self.T, m, op['max_per_template']) < 2:
                raise Reject('store would hold < 2 spikes (squeeze degeneracy)')
            np.random.seed(op['np_seed'])
            must_return('save_spikes_subset_waveforms', m.save_spikes_subset_waveforms,
                        max_n_spikes_per_template=op['max_per_template'],
                        max_n_channels=op['max_channels'], sample2unit=op['factor'])
            self.store = dict(max_per_template=op['max_per_template'], factor=op['factor'],
                              chunk_bounds=[int(x) for x in m.traces.chunk_bounds])
        elif o == 'close':
            self._need_live()
            must_return('close', self.m.close)
            self._mt_close(self.m)
            self.live = False
            self.m = None
        elif o == 'reload':
            self._reload()
        else:
            raise ValueError(o)

    def _saved(self, kind):
        st_ = self.stats
        st_['saves'][kind] += 1
        st_['_since'][kind] += 1
        if st_['_since'][kind] >= 2:
            st_['double_save'] = True

    def _write_foreign(self, op):
        k, idx = op['kind'], op['file']
        d = self.T.dir
        fa, fb = 'f%d_a' % idx, 'f%d_b' % idx
        rows = op['rows']       # list of [cid, a, b] with simple token values or None
        if k == 'csvdup':
            # an old-style CSV that also has columns named like saved fields: CSV files are read
            # before TSV files, so the saved cluster_<field>.tsv keeps the last word
            p = d / ['cluster_groups.csv', 'zz_old.csv', 'aaa.csv'][idx % 3]
            fields = sorted(self.meta) or ['group']
            cids = sorted(set([r[0] for r in rows] + [c for f in self.meta.values() for c in f] + [0]))
            lines = [','.join(['cluster_id'] + fields)] + \
                [','.join([str(c)] + ['STALE'] * len(fields)) for c in cids]
            p.write_text('\n'.join(lines) + '\n')
            self.stats['info_file'] = True
            self.csvdup_fields = getattr(self, 'csvdup_fields', set()) | set(fields)
            return
        if k == 'csvstem':
            # a legacy CSV with the same stem as a saved field's TSV: its column of that name is
            # superseded by the TSV, its other column is ordinary foreign metadata
            field = (sorted(self.meta) or ['group'])[idx % max(1, len(self.meta))]
            name = 'cluster_%s.csv' % field
            extra = 'stem%d_x' % idx
            for other, fields in list(self.foreign.items()):
                if extra in fields and other != name:
                    return      # that foreign column already lives in another file
            cids = sorted(set([r[0] for r in rows] + [0]))
            lines = [','.join(['cluster_id', field, extra])] + \
                [','.join([str(c), 'STALE', str(c + 7)]) for c in cids]
            (d / name).write_text('\n'.join(lines) + '\n')
            self.foreign[name] = {extra: {c: c + 7 for c in cids}}
            self.csvdup_fields = getattr(self, 'csvdup_fields', set()) | {field}
            self.stats['info_file'] = True
            return
        if k == 'info':
            # must be ignored: redefines a saved field with different values
            p = d / 'cluster_info.tsv'
            fields = sorted(self.meta) or ['group']
            cids = sorted(set([r[0] for r in rows] + [c for f in self.meta.values() for c in f] + [0]))
            lines = ['\t'.join(['cluster_id'] + fields)] + \
                ['\t'.join([str(c)] + ['IGNORED'] * len(fields)) for c in cids]
            p.write_text('\n'.join(lines) + '\n')
            self.stats['info_file'] = True
            return
        name = 'foreign%d.%s' % (idx, 'csv' if k == 'csv' else 'tsv')
        other = 'foreign%d.%s' % (idx, 'tsv' if k == 'csv' else 'csv')
        if (d / other).exists():
            (d / other).unlink()
            self.foreign.pop(other, None)
        p = d / name
        self.foreign.pop(name, None)
        delim = ',' if k == 'csv' else '\t'

        def cell(v):
            return '' if v is None else (repr(v) if isinstance(v, float) else str(v))
        if k in ('tsv', 'csv'):
            lines = [delim.join(['cluster_id', fa, fb])]
            exp = {fa: {}, fb: {}}
            for cid, a, b in rows:
                lines.append(delim.join([str(cid), cell(a), cell(b)]))
                if a is not None:
                    exp[fa][cid] = a
                if b is not None:
                    exp[fb][cid] = b
            p.write_text('\n'.join(lines) + '\n')
            self.foreign[name] = {f: mp for f, mp in exp.items() if mp} if rows else {}
            return
        self.stats['malformed'] = True
        self.stats['_malformed_pending'] = True
        if k == 'empty':
            p.write_text('')
        elif k == 'header':
            p.write_text(delim.join(['cluster_id', fa]) + '\n')
        elif k == 'ragged':
            p.write_text('cluster_id\t%s\t%s\n1\n2\tx\ty\tz\tw\n\n3\t\n' % (fa, fb))
        elif k == 'nocid':
            p.write_text('%s\t%s\n1\t2\n3\t4\n' % (fa, fb))
        elif k == 'strids':
            p.write_text('cluster_id\t%s\nabc\t1\n1.5\t2\n' % fa)
        elif k == 'fuzz':
            # arbitrary generated bytes (text fragments, delimiters, quotes, NULs, invalid UTF-8)
            p.write_bytes(bytes.fromhex(op.get('blob', '')))
        elif k == 'bigquote':
            # a stray double quote with more than 128 KiB after it (the csv module's field limit)
            p.write_text('cluster_id\t%s\n1\t"%s\n' % (fa, 'good\n2\t' * 30000))
        elif k == 'bigfield':
            p.write_text('cluster_id\t%s\n1\t%s\n' % (fa, 'x' * 200000))
        elif k == 'binary':
            p.write_bytes(bytes((i * 37 + 11) % 256 for i in range(64)) + b'\x00\xff\xfe\t\n')

    def _reload(self):
        if self.live and self.m is not None:
            self._mt_close(self.m)      # drop the old model without close()
        self.m = self._load('load_model (reload)')
        self.live = True
        st_ = self.stats
        st_['reloads'] += 1
        st_['_since'] = {'clusters': 0, 'meta': 0}
        if st_.pop('_malformed_pending', False):
            st_['reload_after_malformed'] = True
        if st_['_store_then_recluster']:
            st_['store_then_recluster_reload'] = True
        self._verify()

    # -- comparison with the reference model -------------------------------------------------
    def _verify(self):
        m, T = self.m, self.T
        same_array('spike_clusters after reload', m.spike_clusters,
                   np.array(self.clusters, dtype=np.int32), key='reload-clusters')
        same_array('spike_templates after reload', m.spike_templates, T.spike_templates,
                   key='reload-templates')
        exp_samples = T.samples
        if T.spec['naming'] == 'alf' and not T.alf_samples_file:
            exp_samples = np.round(T.times * T.rate).astype(np.uint64)
        same_array('spike_samples after reload', m.spike_samples, exp_samples,
                   key='reload-samples')
        same_array('spike_times after reload', m.spike_times, T.times, key='reload-times',
                   tol=(1e-12, 0))
        md = m.metadata
        for field, mapping in self.meta.items():
            if not mapping:
                if field in getattr(self, 'csvdup_fields', ()):
                    continue    # an empty TSV defines nothing, so an older CSV column shows through
                require(not md.get(field), 'empty saved field %r has entries' % field,
                        key='reload-metadata', observed=md.get(field))
                continue
            got = md.get(field)
            ok = isinstance(got, dict) and set(got.keys()) == set(mapping.keys()) and \
                all(type(k) is int for k in got) and \
                all(_same_value(got[k], v) for k, v in mapping.items())
            require(ok, 'metadata field %r is not the last saved mapping' % field,
                    key='reload-metadata', observed=got, expected=mapping)
        for name, fields in self.foreign.items():
            for field, mapping in fields.items():
                got = md.get(field)
                ok = isinstance(got, dict) and set(got.keys()) == set(mapping.keys()) and \
                    all(_same_value(got[k], v) for k, v in mapping.items())
                require(ok, 'metadata of foreign file %s field %r lost' % (name, field),
                        key='reload-foreign', observed=got, expected=mapping)
        # provenance of the reloaded pair
        st_ = [int(x) for x in T.spike_templates]
        dense = T.tcols is None
        if dense and self.clusters != st_:
            cmax = max(self.clusters)
            exp_map = {c: sorted(set(t for t, cc in zip(st_, self.clusters) if cc == c))
                       for c in range(cmax + 1)}
            got_map = {int(k): sorted(int(x) for x in v) for k, v in m.merge_map.items()}
            require(got_map == exp_map, 'merge_map after reload', key='reload-merge-map',
                    observed=got_map, expected=exp_map)
            require(int(m.n_clusters) == cmax + 1, 'n_clusters after reload', key='reload-n-clusters',
                    observed=int(m.n_clusters), expected=cmax + 1)
        else:
            require(dict(m.merge_map) == {} and int(m.n_clusters) == T.spec['nt'],
                    'merge_map / n_clusters after reload (clusters are templates or sparse)',
                    key='reload-n-clusters', observed=(m.merge_map, int(m.n_clusters)))
        if self.store is not None:
            self._verify_store()

    def _verify_store(self):
        m, T, s = self.m, self.T, self.store
        sw = m.spike_waveforms
        require(sw is not None, 'subset store not loaded after reload', key='reload-store-missing')
        ids = np.asarray(sw.spike_ids).tolist()
        require(all(b > a for a, b in zip(ids, ids[1:])), 'stored spike ids not strictly '
                'increasing', key='store-ids', observed=ids)
        iv = D.kept_chunk_intervals(s['chunk_bounds'])
        samples = [int(x) for x in T.samples]
        bad = [i for i in ids if not any(a <= samples[i] < b for a, b in iv)]
        require(not bad, 'stored spike outside the kept chunks', key='store-chunks',
                observed=(bad, [samples[i] for i in bad]), expected=iv)
        per = {}
        for i in ids:
            t = int(T.spike_templates[i])
            per[t] = per.get(t, 0) + 1
        for t in sorted(set(int(x) for x in T.spike_templates)):
            elig = [i for i in range(len(samples)) if int(T.spike_templates[i]) == t and
                    any(a <= samples[i] < b for a, b in iv)]
            require(per.get(t, 0) == min(len(elig), s['max_per_template']),
                    'number of stored spikes of template %d' % t, key='store-count',
                    observed=per.get(t, 0), expected=min(len(elig), s['max_per_template']))
        chans = np.asarray(sw.spike_channels)
        wav = np.asarray(sw.waveforms)
        nsw = T.spec['nsw']
        A = T.raw[:, T.chmap.astype(np.int64)].astype(np.float64)
        require(wav.shape == (len(ids), nsw, chans.shape[1]), 'store waveform shape',
                key='store-shape', observed=wav.shape, expected=(len(ids), nsw, chans.shape[1]))
        # the same waveforms through the model's accessor (all stored spikes of all templates in
        # one request, all channels): stored channels as stored, the others zero
        allch = np.arange(A.shape[1])
        got = np.asarray(must_return('get_waveforms (stored spikes, all channels)', m.get_waveforms,
                                     np.array(ids, dtype=np.int64), allch))
        expw = np.zeros((len(ids), nsw, A.shape[1]), dtype=wav.dtype)
        for k in range(len(ids)):
            for j, c in enumerate(chans[k]):
                if c != -1:
                    expw[k, :, int(c)] = wav[k, :, j]
        same_array('get_waveforms(stored spikes) vs the store files', got, expw,
                   key='store-accessor', dtype=False)
        n = A.shape[0]
        for k, i in enumerate(ids):
            for j, c in enumerate(chans[k]):
                e = np.zeros(nsw)
                if c != -1:
                    for r in range(nsw):
                        row = samples[i] - nsw // 2 + r
                        if 0 <= row < n:
                            e[r] = A[row, int(c)]
                e = e * s['factor']
                if not np.array_equal(wav[k, :, j], e):
                    raise Violation('stored waveform (spike %d, channel %d) differs from the raw '
                                    'window x factor' % (i, int(c)), key='store-waveform',
                                    observed=wav[k, :, j], expected=e)

    def finish(self):
        # always end on a fresh load so that the final on-disk state is verified
        self._reload()
        out = {k: v for k, v in self.stats.items() if not k.startswith('_')}
        out['store'] = self.store is not None
        out['info_file'] = bool(self.stats.get('info_file')) and any(self.meta.values())
        return out

    def close(self):
        try:
            if self.m is not None:
                if self.live:
                    try:
                        self.m.close()
                    except Exception:
                        pass
                self._mt_close(self.m)
        finally:
            os.chdir(self._cwd)
            self._cm.__exit__(None, None, None)


def new_interp(case):
    return Interp(case)


def check(case):
    return core.replay_trace(sys.modules[__name__], case)


# ---------------------------------------------------------------------------------------------

_Base = core.make_trace_machine_base()
_tok = st.one_of(st.none(), st.integers(0, 99), st.sampled_from([1.5, -2.25, 3.0]),
                 st.sampled_from(['good', 'mua', 'x y', 'noise']))
_rows = st.lists(st.tuples(st.integers(0, 40), _tok, _tok), max_size=4,
                 unique_by=lambda r: r[0]).map(lambda rs: [list(r) for r in rs])


_frag = st.sampled_from([b'cluster_id', b'\t', b',', b'\n', b'\r\n', b'"', b"'", b'1', b'2.5', b'abc',
                         b'\x00', b'\xff\xfe', b'\xc3', b' ', b'-', b'nan', b'e5', b'\\'])
_blob = (st.lists(_frag, max_size=24).map(b''.join) | st.binary(max_size=40)).map(lambda b: b.hex())


class Machine(_Base):
    @initialize(spec=D.dataset_spec(raw=True, features=False, tfeatures=False, max_nc=8,
                                     symlinks=True),
                rel=st.booleans(), dirname=st.sampled_from(DIRNAMES))
    def init(self, spec, rel, dirname):
        # small chunks so that more than 20 chunks exist and the sub-selection bites
        # (flat/npy readers cut chunks of 600 s: choose the rate so that a chunk is c samples)
        c = max(2, spec['n_raw'] // 30)
        spec['raw']['chunk'] = c
        spec['rate'] = c / 600.0
        self.start({'spec': spec, 'rel': rel, 'dirname': dirname})

    def _live(self):
        return self.interp is not None and self.interp.live

    @precondition(lambda self: self._live())
    @rule(ops=st.lists(D._curation_op, max_size=3), dtype=st.sampled_from(['int32', 'int64', 'uint32']))
    def save_clusters(self, ops, dtype):
        self.do(dict(op='save_clusters', ops=ops, dtype=dtype))

    @precondition(lambda self: self._live())
    @rule(back=st.integers(0, 3), dtype=st.sampled_from(['int32', 'int64', 'uint32']))
    def save_earlier_clusters(self, back, dtype):
        self.do(dict(op='save_clusters', ops=[], dtype=dtype, back=back))

    @precondition(lambda self: self._live())
    @rule(field=st.sampled_from(FIELDS), mapping=_mapping)
    def save_metadata(self, field, mapping):
        self.do(dict(op='save_metadata', field=field, mapping=mapping))

    @precondition(lambda self: self.interp is not None)
    @rule(kind=st.sampled_from(FOREIGN_KINDS), file=st.integers(0, 2), rows=_rows, blob=_blob)
    def foreign(self, kind, file, rows, blob):
        op = dict(op='foreign', kind=kind, file=file, rows=rows)
        if kind == 'fuzz':
            op['blob'] = blob
        self.do(op)

    @precondition(lambda self: self._live())
    @rule(mpt=st.integers(2, 6), mc=st.integers(1, 8), ncc=st.integers(2, 12),
          factor=st.sampled_from([1.0, 1, 0.5, 2]), np_seed=st.integers(0, 2 ** 31 - 1))
    def export(self, mpt, mc, ncc, factor, np_seed):
        self.do(dict(op='export', max_per_template=mpt, max_channels=mc, ncc=ncc, factor=factor,
                     np_seed=np_seed))

    @precondition(lambda self: self._live())
    @rule()
    def close_model(self):
        self.do(dict(op='close'))

    @precondition(lambda self: self.interp is not None)
    @rule()
    def reload(self):
        self.do(dict(op='reload'))


Machine.reload2 = Machine.reload
Machine.MOD = sys.modules[__name__]


def drivers(tier):
    th = tier == 'thorough'
    return [dict(kind='machine', name='history', machine=Machine, examples=20000 if th else 4000,
                 steps=25 if th else 10)]


def classify(case, info):
    labels = ['steps:%d' % (5 * (len(case['trace']) // 5)), 'reloads:%d' % min(info['reloads'], 4)]
    nt = False
    for k, lab in (('double_save', 'two-saves-then-reload'),
                   ('reload_after_malformed', 'reload-after-malformed-file'),
                   ('store_then_recluster_reload', 'store-recluster-reload')):
        if info[k]:
            labels.append(lab)
            nt = True
    if info['store']:
        labels.append('store-exported')
    if info.get('resaved_earlier'):
        labels.append('earlier-assignment-saved-again')
    if info.get('info_file'):
        labels.append('cluster_info-redefines-saved-field')
    s = case['init']['spec']
    labels.append('naming:' + s['naming'])
    labels.append('dense' if s['templates']['dense'] else 'sparse')
    if case['init'].get('rel'):
        labels.append('opened-by-relative-path-then-chdir')
    if case['init'].get('dirname', 'ds') != 'ds':
        labels.append('special-characters-in-directory-name')
    if s.get('symlinks'):
        labels.append('symlinked-files')
    return labels, nt
