# -*- coding: utf-8 -*-
"""C15 - correlograms count exactly the spike pairs in each lag bin."""

import itertools
from fractions import Fraction

import numpy as np
from hypothesis import strategies as st

from .. import env, core
from ..core import require, must_return, same_array

env.import_phylib()
from phylib.stats.ccg import correlograms, firing_rate  # noqa: E402

ID = 'C15'
LEVEL = 'exploration'
IDS = [2, 5, 9, 4]           # label k of a spike means cluster id IDS[k] (gapped, unsorted)
BW = [(1, 1), (1, 3), (2, 5), (2, 8), (3, 7)]
RATES = [1, 2, 4, 1024]      # (the 'coarse' driver uses 32768 Hz)
DTYPES = ['int32', 'int64', 'uint16', 'uint32']
# how the spike times are handed over; integer types carry whole seconds (samples = k * rate)
TIME_TYPES = ['float64', 'float64', 'int64', 'uint32', 'list']
RULE = (
    "(grid) exhaustive trains: inter-spike gaps in {0,1,2,3} samples, length<=5 (quick) / <=7 "
    "(thorough; lengths 6-7 over a 2-cluster labelling alphabet), every labelling over <=3 "
    "clusters (<=4 for length<=4), (bin,window) in {(1,1),(1,3),(2,5),(2,8),(3,7)} samples; the "
    "label dtype and the sample rate in {1,2,4,1024} cycle with the case index (times = "
    "samples/rate, bin and window = multiples of 1/rate, all exact in binary floating point); the times are handed over as float64 seconds or, scaled to "
    "whole seconds, as int64 / uint32 arrays or a list of ints; uint16 label vectors carry id 65535 "
    "in half of the cases. "
    "Each case is evaluated for several cluster-id lists: None, ascending with an absent id, "
    "reversed with an absent id first, and an int32 id array that is reversed in place between two "
    "calls. (long) hand-made trains of 400 000 spikes (thorough: up to 2**20+77). (rand) Hypothesis trains up to 400 spikes. "
    "Oracle: O(n^2) pair loop with exact integer arithmetic; symmetrised shape 2*half+1, "
    "C[i,j,k]==C[j,i,-k], positive lags == one-sided counts, centre == max of the two zero-lag "
    "counts; firing_rate == outer(counts,counts)*bin/duration with zero rows for empty ids. "
    "Non-trivial: >=2 equal times, or a pair exactly in the last kept bin or the first excluded "
    "lag, or >=2 clusters present."
    ' Later additions: times on both sides of zero, read-only inputs, an id array reversed in pla'
    'ce between two calls, bins of 13-250 samples with pairs whole bins apart, seconds-long bins '
    'at 32 768 Hz, trains of 400 000 (thorough 2**20+77) spikes, an id of 70 001 among few '
    'spikes (sparse ids) requested in descending order.')
ASSUMPTIONS = ['sample rates are powers of two so that times*rate is exact']


def _grid_cases(Lmax):
    i = 0
    for L in range(1, Lmax + 1):
        nlab = 4 if L <= 4 else (3 if L <= 5 else 2)
        for gaps in itertools.product(range(4), repeat=L - 1):
            for labels in itertools.product(range(nlab), repeat=L):
                # canonical labellings only: first occurrences appear in order 0,1,2.. would lose
                # the id-order dimension, so keep all labellings.
                for bw in BW:
                    i += 1
                    yield {'k': 'grid', 'gaps': list(gaps), 'labels': list(labels), 'bw': list(bw),
                           'dt': DTYPES[i % 4], 'rate': RATES[(i // 4) % 4],
                           'tt': TIME_TYPES[(i // 16) % 5]}


@st.composite
def _rand_case(draw):
    n = draw(st.integers(1, 40) | st.integers(1, 400))
    maxgap = draw(st.sampled_from([1, 3, 10, 50]))
    gaps = draw(st.lists(st.integers(0, maxgap), min_size=n - 1, max_size=n - 1))
    nlab = draw(st.integers(1, 4))
    labels = draw(st.lists(st.integers(0, nlab - 1), min_size=n, max_size=n))
    b = draw(st.integers(1, 12) | st.integers(13, 250))
    w = draw(st.integers(1, 60)) if b <= 12 else draw(st.integers(1, 5 * b))
    if b > 12 and draw(st.booleans()):
        # pairs exactly a whole number of bins apart (the floor must land in that bin)
        gaps = [g * b if draw(st.booleans()) else g for g in gaps]
    return {'k': 'rand', 'gaps': gaps, 'labels': labels, 'bw': [b, w],
            'dt': draw(st.sampled_from(DTYPES)), 'rate': draw(st.sampled_from(RATES)),
            # trains may be aligned on an event: times on both sides of zero
            'start': draw(st.integers(0, 1000) | st.integers(-300, 0)),
            'tt': draw(st.sampled_from(TIME_TYPES)), 'ro': draw(st.booleans())}


@st.composite
def _coarse_case(draw):
    # seconds-long bins at an audio / ephys sampling rate: more than 1e5 samples per bin
    n = draw(st.integers(2, 30))
    gaps = draw(st.lists(st.integers(0, 40), min_size=n - 1, max_size=n - 1))
    nlab = draw(st.integers(1, 3))
    return {'k': 'rand', 'gaps': [g * 16384 for g in gaps],
            'labels': draw(st.lists(st.integers(0, nlab - 1), min_size=n, max_size=n)),
            'bw': [draw(st.sampled_from([131072, 2 ** 17 + 16384, 3 * 65536])),
                   draw(st.integers(1, 9)) * 131072],
            'dt': draw(st.sampled_from(DTYPES)), 'rate': 32768, 'start': 0, 'tt': 'float64',
            'ro': False}


def _big_rate_cases(th):
    # firing-rate normaliser for cluster sizes whose product does not fit 32 bits
    for counts in ([[46341, 46341]] if not th else [[46341, 46341], [60000, 48000, 3], [70000]]):
        yield {'k': 'fr-big', 'counts': counts}


@st.composite
def _f32_case(draw):
    # float32 spike times on a 1/16 s grid, 30 kHz: samples = k * 1875 are exact integers, beyond
    # 2**24 they are not representable in float32 any more
    n = draw(st.integers(2, 40))
    k0 = draw(st.integers(9000, 200000))
    gaps = draw(st.lists(st.integers(0, 6), min_size=n - 1, max_size=n - 1))
    nlab = draw(st.integers(1, 3))
    return {'k': 'f32', 'k0': k0, 'gaps': gaps,
            'labels': draw(st.lists(st.integers(0, nlab - 1), min_size=n, max_size=n)),
            'bw': [draw(st.integers(1, 3)), draw(st.integers(1, 12))],
            'rate_type': draw(st.sampled_from(['int', 'float']))}


def _long_cases(th):
    # trains longer than 2**18 (thorough: 2**20) spikes
    for i, (n, bw) in enumerate([(400000, [3, 33])] + ([(2 ** 20 + 77, [2, 9]), (300001, [1, 5])]
                                                        if th else [])):
        yield {'k': 'long', 'n': n, 'seed': 15 + i, 'bw': bw, 'nlab': 3}


def _check_long(case):
    rs = np.random.RandomState(case['seed'])
    n, (b, w) = case['n'], case['bw']
    samples = np.cumsum(rs.randint(0, 12, size=n)).astype(np.int64)
    labels = rs.randint(0, case['nlab'], size=n)
    ids = [IDS[k] for k in range(case['nlab'])]
    cl = [ids[k] for k in labels]
    rate = 4
    half = int(Fraction(w, 2 * b))
    exp = _one_sided(samples.tolist(), cl, ids, b, half)
    got = must_return('correlograms(symmetrize=False)', correlograms, samples / float(rate),
                      np.array(cl, dtype=np.int32), cluster_ids=ids, sample_rate=float(rate),
                      bin_size=b / rate, window_size=w / rate, symmetrize=False)
    same_array('one-sided correlogram (%d spikes)' % n, got, exp, key='one-sided', dtype=False)
    return {'half': half, 'edge': True}


def drivers(tier):
    th = tier == 'thorough'
    return [
        dict(kind='enum', name='long', exhaustive=False,
             bound='trains of 400 000 (thorough: up to 2**20+77) spikes', cases=lambda: _long_cases(th)),
        dict(kind='enum', name='fr-big', exhaustive=False, bound='cluster sizes around 46 341',
             cases=lambda: _big_rate_cases(th)),
        dict(kind='hyp', name='f32', strategy=_f32_case(), examples=6000 if th else 600),
        dict(kind='enum', name='grid', exhaustive=True,
             bound='gaps in 0..3, length<=%d' % (7 if th else 5),
             cases=lambda: _grid_cases(7 if th else 5)),
        dict(kind='hyp', name='rand', strategy=_rand_case(), examples=40000 if th else 3000),
        dict(kind='hyp', name='coarse', strategy=_coarse_case(), examples=4000 if th else 400),
    ]


def _one_sided(samples, cl, ids, b, half):
    """Pair-count oracle from the statement."""
    n = len(samples)
    pos = {c: i for i, c in enumerate(ids)}
    out = np.zeros((len(ids), len(ids), half + 1), dtype=np.int64)
    for a in range(n):
        for bb in range(a + 1, n):
            k = (samples[bb] - samples[a]) // b
            if k <= half:
                out[pos[cl[a]], pos[cl[bb]], k] += 1
            else:
                break  # times are non-decreasing
    return out


def _check_fr_big(case):
    counts = case['counts']
    labels = np.concatenate([np.full(c, i, dtype=np.int32) for i, c in enumerate(counts)])
    fr = must_return('firing_rate', firing_rate, labels, cluster_ids=list(range(len(counts))),
                     bin_size=0.5, duration=100.0)
    c = np.array(counts, dtype=np.float64)
    same_array('firing_rate (large clusters)', fr, np.outer(c, c) * (0.5 / 100.0),
               key='firing-rate', dtype=False, tol=(1e-12, 0))
    return {'half': 0, 'edge': False}


def _check_f32(case):
    rate = 30000
    ks = [case['k0']]
    for g in case['gaps']:
        ks.append(ks[-1] + g)
    samples = [k * 1875 for k in ks]                     # = (k / 16 s) * 30000 Hz, exact
    times = np.array([k / 16.0 for k in ks], dtype=np.float32)
    if not np.array_equal(times.astype(np.float64) * 16, np.array(ks, dtype=np.float64)):
        raise core.Reject('time not exactly representable in float32')
    cl = [IDS[k] for k in case['labels']]
    b, w = case['bw']                                    # in 1/16 s units
    binsize = b * 1875
    half = int(Fraction(w, 2 * b))
    present = sorted(set(cl))
    exp = _one_sided(samples, cl, present, binsize, half)
    got = must_return('correlograms(float32 times)', correlograms, times,
                      np.array(cl, dtype=np.int32),
                      sample_rate=rate if case['rate_type'] == 'int' else float(rate),
                      bin_size=b / 16.0, window_size=w / 16.0, symmetrize=False)
    same_array('one-sided correlogram (float32 times beyond 2**24 samples)', got, exp,
               key='one-sided', dtype=False)
    return {'half': half, 'edge': True}


def check(case):
    if case.get('k') == 'fr-big':
        return _check_fr_big(case)
    if case.get('k') == 'f32':
        return _check_f32(case)
    if case.get('k') == 'long':
        return _check_long(case)
    gaps, labels, (b, w) = case['gaps'], case['labels'], case['bw']
    rate = case['rate']
    samples = [case.get('start', 0)]
    for g in gaps:
        samples.append(samples[-1] + g)
    ids_map = list(IDS)
    if case['dt'] == 'uint16' and sum(gaps) % 2:
        ids_map[1] = 65535          # an id at the top of the label dtype's range
    elif case['dt'] != 'uint16' and sum(gaps) % 3 == 0:
        ids_map[2] = 70001          # few spikes, an id far above their number (sparse ids)
    cl = [ids_map[k] for k in labels]
    tt = case.get('tt', 'float64')
    if tt == 'uint32' and samples[0] < 0:
        tt = 'int64'
    if tt == 'float64':
        times = np.array(samples, dtype=np.float64) / rate
    else:
        # whole seconds: every sample index is a multiple of the rate; bin and window scale too
        samples = [s_ * rate for s_ in samples]
        b, w = b * rate, w * rate
        secs = [s_ // rate for s_ in samples]
        times = secs if tt == 'list' else np.array(secs, dtype=tt)
    clusters = np.array(cl, dtype=case['dt'])
    if case.get('ro'):
        # arrays loaded with mmap_mode='r' or owned by someone else are read-only
        clusters.setflags(write=False)
        if isinstance(times, np.ndarray):
            times.setflags(write=False)
    bin_size = b / rate
    window = w / rate
    half = int(Fraction(w, 2 * b))  # floor, exact
    present = sorted(set(cl))
    absent = [c for c in (7, 0, 11) if c not in present]
    IDS_ = ids_map
    id_lists = [None, present + absent[:1], absent[1:2] + present[::-1]]
    info = {'half': half, 'edge': False}
    for ids in id_lists:
        eff = present if ids is None else ids
        exp = _one_sided(samples, cl, eff, b, half)
        kw = dict(cluster_ids=None if ids is None else list(ids), sample_rate=float(rate),
                  bin_size=bin_size, window_size=window)
        got = must_return('correlograms(symmetrize=False)', correlograms, times, clusters,
                          symmetrize=False, **kw)
        same_array('one-sided correlogram (cluster_ids=%s)' % (ids,), got, exp, key='one-sided',
                   dtype=False)
        sym = must_return('correlograms(symmetrize=True)', correlograms, times, clusters, **kw)
        sym = np.asarray(sym)
        require(sym.shape == (len(eff), len(eff), 2 * half + 1), 'symmetrised shape',
                key='sym-shape', observed=sym.shape, expected=(len(eff), len(eff), 2 * half + 1))
        esym = np.zeros_like(sym, dtype=np.int64)
        for i in range(len(eff)):
            for j in range(len(eff)):
                esym[i, j, half] = max(exp[i, j, 0], exp[j, i, 0])
                for k in range(1, half + 1):
                    esym[i, j, half + k] = exp[i, j, k]
                    esym[i, j, half - k] = exp[j, i, k]
        same_array('symmetrised correlogram (cluster_ids=%s)' % (ids,), sym, esym, key='sym',
                   dtype=False)
        require(np.array_equal(sym, np.transpose(sym, (1, 0, 2))[..., ::-1]),
                'C[i,j,k] != C[j,i,-k]', key='sym-identity', observed=sym)
        # firing-rate normaliser
        duration = float(samples[-1] - samples[0] + 1) / rate
        fr = must_return('firing_rate', firing_rate, clusters,
                         cluster_ids=None if ids is None else list(ids),
                         bin_size=bin_size, duration=duration)
        counts = np.array([cl.count(c) for c in eff], dtype=np.float64)
        efr = np.outer(counts, counts) * (bin_size / duration)
        same_array('firing_rate (cluster_ids=%s)' % (ids,), fr, efr, key='firing-rate',
                   dtype=False, tol=(1e-12, 0))
    # the caller's id array is read at every call: editing it in place between two calls changes
    # the order of the result accordingly
    if len(present) >= 2:
        arr = np.array(present + absent[:1], dtype=np.int32)
        kw = dict(sample_rate=float(rate), bin_size=bin_size, window_size=window, symmetrize=False)
        for step in range(2):
            eff = arr.tolist()
            got = must_return('correlograms(cluster_ids=int32 array)', correlograms, times,
                              clusters, cluster_ids=arr, **kw)
            same_array('one-sided correlogram (cluster_ids array %s%s)' % (
                eff, ', edited in place since the previous call' if step else ''), got,
                _one_sided(samples, cl, eff, b, half), key='one-sided', dtype=False)
            fr = must_return('firing_rate', firing_rate, clusters, cluster_ids=arr,
                             bin_size=bin_size, duration=1.0)
            counts = np.array([cl.count(c) for c in eff], dtype=np.float64)
            same_array('firing_rate (cluster_ids array %s)' % eff, fr,
                       np.outer(counts, counts) * bin_size, key='firing-rate', dtype=False,
                       tol=(1e-12, 0))
            arr[:] = arr[::-1].copy()
    # edge pairs: lag exactly in the last kept bin or the first excluded one
    for a in range(len(samples)):
        for bb in range(a + 1, len(samples)):
            k = (samples[bb] - samples[a]) // b
            if k in (half, half + 1):
                info['edge'] = True
    return info


def classify(case, info):
    if case.get('k') == 'fr-big':
        return ['fr-big'], True
    if case.get('k') == 'f32':
        return ['f32-times', 'f32:rate-' + case['rate_type']], True
    if case.get('k') == 'long':
        return ['long:%d-spikes' % case['n']], True
    labels = [case['k'], 'rate:%d' % case['rate'], 'half:%s' % min(info['half'], 3)]
    nt = False
    if any(g == 0 for g in case['gaps']):
        labels.append('equal-times')
        nt = True
    if info['edge']:
        labels.append('edge-pair')
        nt = True
    if len(set(case['labels'])) >= 2:
        labels.append('multi-cluster')
        nt = True
    if case['dt'].startswith('u'):
        labels.append('unsigned')
    if case.get('start', 0) < 0:
        labels.append('times-on-both-sides-of-zero')
    if case.get('ro'):
        labels.append('read-only-input-arrays')
    return labels, nt
