# -*- coding: utf-8 -*-
"""C03 - every route to a spike waveform yields the same zero-padded raw window."""

import numpy as np
from hypothesis import strategies as st

from .. import env, core, strategies as S
from ..core import require, must_return, same_array, Violation

env.import_phylib()
from phylib.io.traces import (  # noqa: E402
    extract_waveforms, export_waveforms, get_spike_waveforms)
from phylib.utils import Bunch  # noqa: E402

ID = 'C03'
LEVEL = 'exploration'
FACTORS = [1, 2, 3, 1.0, 0.5, 2.5]
RULE = (
    "Hypothesis: a recording (n from 1, so windows longer than the recording occur; 1-5 channels; "
    "int16/int32/float32/float64 samples; flat 1..5 files with header offsets, npy, array, "
    "cbin opened by path or as mtscomp.Reader with 1-3 threads, cache on/off; chunk length 1..n+3) "
    "plus 0..12 (one case in 16: 1001-1300) sorted spike samples of dtype int64/uint64/int32/uint32 drawn half of the time "
    "from {0, n-1, within the half window of either end, chunk/file bounds +-1, duplicates}; "
    "window length 1..12; per-spike channel rows (distinct channels, -1 entries); unit factor in "
    "{1,2,3,1.0,0.5,2.5}; store queries = generated sub-multisets of the stored spike ids in "
    "generated order with a generated channel list; the export target path is empty or already "
    "holds an earlier, different export. Routes: extract_waveforms on the reader and on "
    "the plain array; export_waveforms -> np.load (must load, declared shape, window x factor in "
    "spike order); get_spike_waveforms on the store built from the exported file (claimed at "
    "(spike, channel) positions whose channel is stored for that spike). Oracle: double loop "
    "window(s)[r,j] = A[s-n//2+r, ch[j]] if the row exists and ch[j] != -1 else 0. Non-trivial: "
    "a spike within the half window of an end, or on a chunk bound with >=2 chunks, or unsigned "
    "spike dtype, or a -1 channel, or an odd window, or a window longer than the recording."
    ' Later additions: read-only spike/channel arrays that must come back unchanged; float record'
    'ings with NaN/inf; one chunk of waveforms beyond 16 MiB; a sparse recording of 2**31+200 (th'
    'orough 2**32+200) samples with spikes beyond sample 2**31; model-level wrappers get_template'
    '/cluster_spike_waveforms.')
ASSUMPTIONS = ['mtscomp as codec', 'sample values are small integers and factors dyadic, so every '
               'product is exact in float32/float64']


@st.composite
def _case(draw):
    # sample types of the statement (uint8 x integer factor would overflow in the sample type)
    lay = draw(S.layout(max_n=48, dtypes=['int16', 'int32', 'float32', 'float64']))
    n, nch = lay['n'], lay['nch']
    nsw = draw(st.integers(1, 12))
    half = nsw // 2
    # chunk bounds of the reader
    if lay['backend'] == 'cbin':
        cb = list(range(0, n, lay['chunk'])) + [n]
    else:
        cb = []
        pos = 0
        for p in lay['parts']:
            cb.extend(range(pos, pos + p, lay['chunk']))
            pos += p
        cb.append(n)
    hot = set([0, n - 1])
    for b in cb + list(np.cumsum(lay['parts'])):
        hot.update([b - 1, b, b + 1])
    hot.update(range(0, half + 2))
    hot.update(range(n - half - 2, n))
    hot = sorted(h for h in hot if 0 <= h < n)
    many = draw(st.integers(0, 15)) == 0        # > 1000 spikes (many of them in one chunk)
    ns = draw(st.integers(0, 12))
    spikes = sorted(draw(st.lists(st.sampled_from(hot) | st.integers(0, n - 1), min_size=ns,
                                  max_size=ns)))
    if many and ns >= 1:
        total = draw(st.integers(1001, 1300))
        spikes = sorted(spikes[i % ns] for i in range(total))
        ns = total
    nloc = draw(st.integers(1, min(4, nch + 1)))
    chan = st.integers(0, nch - 1) | st.just(-1)
    chans = []
    for _ in range(min(ns, 12)):
        row = draw(st.lists(chan, min_size=nloc, max_size=nloc))
        # distinct real channels per row (-1 may repeat)
        seen = set()
        row = [(-1 if (c in seen) else (seen.add(c) or c)) if c != -1 else -1 for c in row]
        chans.append(row)
    if ns > 12:
        chans = [chans[(i * 7) % 12] for i in range(ns)]    # channel rows differ between spikes
    common = draw(st.lists(chan, min_size=1, max_size=4))
    seen = set()
    common = [(-1 if (c in seen) else (seen.add(c) or c)) if c != -1 else -1 for c in common]
    queries = []
    for _ in range(draw(st.integers(0, 3)) if ns else 0):
        q = draw(st.lists(st.integers(0, ns - 1), min_size=1, max_size=6))
        ch = draw(st.lists(st.integers(0, nch - 1), min_size=1, max_size=nch, unique=True))
        queries.append([q, ch])
    return {'lay': lay, 'spikes': spikes, 'sdt': draw(st.sampled_from(
        ['int64', 'uint64', 'int32', 'uint32'])), 'nsw': nsw, 'chans': chans, 'common': common,
        'factor': draw(st.sampled_from(FACTORS)), 'cache': draw(st.booleans()),
        'queries': queries, 'id_step': draw(st.integers(1, 3)),
        'preexisting': draw(st.booleans()), 'ro': draw(st.booleans())}


def _large_cases(th):
    # one chunk whose waveforms take more than 16 MiB (thorough: 32 MiB) as float64
    for i, (ns, nsw, nloc) in enumerate([(2300, 96, 10)] + ([(4400, 96, 10), (1100, 82, 24)]
                                                              if th else [])):
        n, nch = 5000, nloc + 2
        lay = {'n': n, 'nch': nch, 'dtype': ['int16', 'float32'][i % 2], 'backend': 'flat',
               'parts': [n], 'offset': 0, 'chunk': n + 1, 'salt': i}
        spikes = sorted((k * 7919 + 13) % n for k in range(ns))
        rows = [[(k + j) % nch if (k + j) % 5 else -1 for j in range(nloc)] for k in range(12)]
        rows = [[(-1 if c in r[:j] else c) for j, c in enumerate(r)] for r in rows]
        yield {'lay': lay, 'spikes': spikes, 'sdt': 'int64', 'nsw': nsw,
               'chans': [rows[(k * 7) % 12] for k in range(ns)], 'common': [0, -1, 2],
               'factor': 2.5, 'cache': bool(i % 2), 'queries': [[[0, ns - 1, ns // 2], [1, 3]]],
               'id_step': 1, 'preexisting': False}


def _huge_cases(th):
    # spikes beyond sample 2**31 (thorough: 2**32) of a sparse 20-hour recording
    for i, n in enumerate([2 ** 31 + 200] + ([2 ** 32 + 200] if th else [])):
        yield {'k': 'huge', 'n': n, 'salt': i, 'sdt': ['uint64', 'int64'][i % 2]}


def _check_huge(case):
    from phylib.io.traces import get_ephys_reader
    from .. import rec
    n, nsw = case['n'], 9
    with env.scratch() as d:
        try:
            R = rec.SparseRecording(d, n, nch=3, dtype='int16', block=200, salt=case['salt'])
        except OSError as e:
            raise core.Reject('the scratch file system cannot hold a sparse file of this size: %s' % e)
        r = must_return('get_ephys_reader', get_ephys_reader, R.path, n_channels=3,
                        dtype=np.int16, sample_rate=30000.)
        try:
            b = n - 200
            spikes = [2, 150, 150, b + 7, b + 100, n - 3, n - 1]
            chans = [[0, 1], [2, 0], [1, -1], [0, 2], [-1, 1], [1, 0], [2, 2]]

            def win(s_, ch):
                rows = list(range(s_ - nsw // 2, s_ - nsw // 2 + nsw))
                block = np.zeros((nsw, 3), dtype=np.int16)
                ok = [k for k, q in enumerate(rows) if 0 <= q < n]
                block[ok] = R.rows([rows[k] for k in ok])
                out = np.zeros((nsw, len(ch)), dtype=np.int16)
                for j, c in enumerate(ch):
                    if c != -1:
                        out[:, j] = block[:, c]
                return out
            ss = np.array(spikes, dtype=case['sdt'])
            sc = np.array(chans, dtype=np.int32)
            exp = np.stack([win(s_, c) for s_, c in zip(spikes, chans)])
            for i in range(len(spikes)):
                out = must_return('extract_waveforms', extract_waveforms, r, ss[i:i + 1],
                                  np.array(chans[i]), n_samples_waveforms=nsw)
                same_array('extract_waveforms (spike at sample %d of %d)' % (spikes[i], n),
                           out[0], exp[i], key='extract')
            path = d / 'wave.npy'
            must_return('export_waveforms', export_waveforms, path, r, ss, sc,
                        n_samples_waveforms=nsw, sample2unit=0.5)
            try:
                loaded = np.load(path)
            except Exception as e:
                raise Violation('exported waveform file does not load: %s' % type(e).__name__,
                                key='export-unloadable')
            same_array('exported waveforms (spikes beyond sample 2**31)', loaded,
                       exp.astype(np.float64) * 0.5, key='export', dtype=False)
        finally:
            for m in getattr(r, '_mmaps', []) or []:
                m._mmap.close()
    return dict(edge=True, both=False, minus1=True)


def drivers(tier):
    th = tier == 'thorough'
    ds = [dict(kind='enum', name='huge', exhaustive=False,
               bound='a sparse recording of 2**31 + 200 (thorough: 2**32 + 200) samples',
               cases=lambda: _huge_cases(th)),
          dict(kind='enum', name='large', exhaustive=False,
               bound='one chunk of waveforms beyond 16 MiB (thorough: 32 MiB)',
               cases=lambda: _large_cases(th)),
          dict(kind='hyp', name='routes', strategy=_case(), examples=200000 if th else 20000)]
    try:
        from . import c03_model
        ds.append(dict(kind='hyp', name='model', strategy=c03_model.strategy(),
                       examples=15000 if th else 1500))
    except ImportError:
        pass
    return ds


def window(A, s, nsw, ch):
    """The statement's definition, as a double loop."""
    n = A.shape[0]
    out = np.zeros((nsw, len(ch)), dtype=A.dtype)
    for r in range(nsw):
        row = s - nsw // 2 + r
        if 0 <= row < n:
            for j, c in enumerate(ch):
                if c != -1:
                    out[r, j] = A[row, c]
    return out


def check(case):
    if case.get('k') == 'model':
        from . import c03_model
        return c03_model.check(case)
    if case.get('k') == 'huge':
        return _check_huge(case)
    lay, nsw = case['lay'], case['nsw']
    spikes = case['spikes']
    ns = len(spikes)
    ss = np.array(spikes, dtype=case['sdt'])
    factor = case['factor']
    with S.OpenReader(lay, must_return) as o:
        r, A = o.reader, o.A
        # -- route 1: direct extraction (one channel list for all spikes) -----------------------
        common = np.array(case['common'], dtype=np.int64)
        if case.get('ro'):
            # arrays that come from np.load(mmap_mode='r') or another owner are read-only
            ss.setflags(write=False)
            common.setflags(write=False)
        exp = np.stack([window(A, s, nsw, case['common']) for s in spikes]) if ns else \
            np.zeros((0, nsw, len(common)), dtype=A.dtype)
        for what, traces in (('extract_waveforms(reader)', r), ('extract_waveforms(array)', A)):
            out = must_return(what, extract_waveforms, traces, ss, common, n_samples_waveforms=nsw)
            same_array(what, out, exp, key='extract')
        # -- route 2: chunk-by-chunk export ----------------------------------------------------
        nloc = len(case['chans'][0]) if ns else 2
        sc = np.array(case['chans'], dtype=np.int32).reshape((ns, nloc))
        if case.get('ro'):
            sc.setflags(write=False)
        path = o.dir / 'wave.npy'
        if case.get('preexisting'):
            # an earlier export (of something else) already sits at the target path
            np.save(path, np.full((ns + 2, nsw + 1, 1), 7.5))
        must_return('export_waveforms', export_waveforms, path, r, ss, sc, n_samples_waveforms=nsw,
                    cache=case['cache'], sample2unit=factor)
        try:
            loaded = np.load(path)
        except Exception as e:
            raise Violation('exported waveform file does not load: %s: %s' % (
                type(e).__name__, str(e)[:120]), key='export-unloadable')
        require(loaded.shape == (ns, nsw, nloc), 'exported file has not the declared shape',
                key='export-shape', observed=loaded.shape, expected=(ns, nsw, nloc))
        expw = np.zeros((ns, nsw, nloc), dtype=np.float64)
        for i, s in enumerate(spikes):
            expw[i] = window(A, s, nsw, case['chans'][i]).astype(np.float64) * factor
        same_array('exported waveforms (window x factor, spike order)', loaded, expw, key='export',
                   dtype=False)
        # the caller's arrays are inputs only
        require(np.array_equal(ss, np.array(spikes, dtype=case['sdt'])) and
                np.array_equal(sc, np.array(case['chans'], dtype=np.int32).reshape((ns, nloc))) and
                np.array_equal(common, np.array(case['common'], dtype=np.int64)),
                'an input array (spike samples / channels) was modified', key='input-mutated',
                observed=(ss, sc, common))
        # -- route 3: lookup in the spike-subset store --------------------------------------------
        if ns:
            ids = np.array([2 + case['id_step'] * i for i in range(ns)], dtype=np.int64)
            # duplicates among spike samples keep distinct ids
            store = Bunch(spike_ids=ids, spike_channels=sc, waveforms=loaded)
            for q, ch in case['queries']:
                qids = ids[np.array(q)]
                out = must_return('get_spike_waveforms', get_spike_waveforms, qids, np.array(ch),
                                  spike_waveforms=store, n_samples_waveforms=nsw)
                require(out.shape == (len(q), nsw, len(ch)), 'store lookup shape', key='store-shape',
                        observed=out.shape, expected=(len(q), nsw, len(ch)))
                for i, k in enumerate(q):
                    stored = set(c for c in case['chans'][k] if c != -1)
                    for j, c in enumerate(ch):
                        if c in stored:
                            e = window(A, spikes[k], nsw, [c])[:, 0].astype(np.float64) * factor
                            if not np.array_equal(out[i, :, j], e, equal_nan=True):
                                raise Violation(
                                    'store lookup differs from the raw window (spike %d, channel %d)'
                                    % (k, c), key='store', observed=out[i, :, j], expected=e)
    # classification info
    n = lay['n']
    half = nsw // 2
    info = dict(edge=any(s < half or s + (nsw - half) > n for s in spikes),
                both=any(s < half and s + (nsw - half) > n for s in spikes),
                minus1=any(-1 in row for row in case['chans']) or -1 in case['common'])
    return info


def classify(case, info):
    if case.get('k') == 'model':
        from . import c03_model
        return c03_model.classify(case, info)
    if case.get('k') == 'huge':
        return ['huge:%d-samples' % case['n'], 'sdt:' + case['sdt']], True
    lay = case['lay']
    labels = ['backend:' + lay['backend'], 'sdt:' + case['sdt'], 'factor:%r' % case['factor']]
    nt = False
    if not case['spikes']:
        labels.append('no-spikes')
    if info['edge']:
        labels.append('spike-near-end')
        nt = True
    if info['both']:
        labels.append('window-overhangs-both-ends')
        nt = True
    if case['nsw'] > lay['n']:
        labels.append('window>recording')
    if case['sdt'].startswith('u') and case['spikes']:
        labels.append('unsigned-spikes')
        nt = True
    if info['minus1']:
        labels.append('minus1-channel')
        nt = True
    if case['nsw'] % 2:
        labels.append('odd-window')
        nt = True
    if lay['chunk'] < lay['n']:
        labels.append('multi-chunk')
    if len(lay['parts']) > 1:
        labels.append('multi-file')
    if case['queries']:
        labels.append('store-queries')
    if len(case['spikes']) > 1000:
        labels.append('>1000-spikes')
    if case.get('preexisting'):
        labels.append('export-over-existing-file')
    if lay.get('nonfinite'):
        labels.append('non-finite-samples')
    if case.get('ro'):
        labels.append('read-only-input-arrays')
    if len(case['spikes']) * case['nsw'] * len(case['chans'][0] if case['chans'] else []) * 8 > 2 ** 24:
        labels.append('chunk-of-waveforms>16MiB')
    return labels, nt
