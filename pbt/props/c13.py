# -*- coding: utf-8 -*-
"""C13 - ALF export writes consistent object tables that load back to the same spikes."""

import uuid
from math import ceil

import numpy as np
from hypothesis import strategies as st

from .. import env, core, datasets as D
from ..core import require, must_return, must_raise, same_array, Violation

env.import_phylib()
from phylib.io.alf import EphysAlfCreator  # noqa: E402

ID = 'C13'
LEVEL = 'exploration'
LABELS = ['', 'probe00', 'a_b', 'amps', 'templates']
RULE = (
    "Hypothesis dense-template datasets with amplitudes: with/without raw data (flat 1-3 files, "
    "npy, cbin), with/without pc features (full row set) and template features, curated clusters "
    "with and without emptied ids or un-curated with unused template ids anywhere, probe table, "
    "shanks, whitening, optional files of the rename table (cluster_KSLabel.tsv, "
    "channel_labels.npy, cluster_shanks.npy stored (n,1)), (n,) and (n,1) vectors, a temp_wh.dat "
    "present or not; labels {'', 'probe00', 'a_b', 'amps', 'templates'} (the last two coincide with a part of some output file name); unit factors {1, 2, 2.5, 1e-6}; ids < 65536. "
    "Oracle: file-set predicate (first dimension of every spikes.* / clusters.* / templates.* / "
    "channels.* file == n_spikes / n_clusters / n_templates / n_channels; clusters.uuids: header "
    "+ n_clusters distinct parseable UUIDs; n_clusters = max id + 1 when curated, n_templates "
    "otherwise); spikes.times == samples/rate, spikes.samples == samples; label before the "
    "extension of exactly those four families; every .npy loads; the model returned for the "
    "output shows equal spike times, samples, clusters, templates, channel positions and channel "
    "map; convert(source_dir) - spelled plainly, as str, through '..', through a symlink or relative to the cwd - raises IOError and writes nothing; SHA-256 of every pre-existing "
    "source file unchanged except temp_wh.dat (deleted) and the _phy_spikes_subset.* files (the "
    "only additions). Histories: a second conversion from the same model object into another "
    "directory (any label), and - for unlabelled exports - curate again, reload and convert again "
    "into the same directory with force=True; every output is verified with the same predicates. "
    "Non-trivial: curated, or a label, or (n,1) storage, or no raw data."
    ' Later additions: output folder names with glob characters, symlinked source files, subset f'
    'iles extracted earlier in a source without raw data.')
ASSUMPTIONS = ['pc-feature stores that hold all spikes (a row-subset store has no depth '
               'definition in the statement)', 'mtscomp as codec']
FAMILIES = ('spikes.', 'clusters.', 'templates.', 'channels.')


@st.composite
def _case(draw):
    spec = draw(D.dataset_spec(dense=True, naming='ks', amplitudes=True, full_feature_rows=True,
                               max_nc=10, clusters_file=True, symlinks=True))
    if spec['raw'] is None and spec['time_dtype'] in ('uint64', 'int64') and draw(st.booleans()):
        # a long recording: sample indices beyond 2**32 (about 40 h at 30 kHz)
        spec['samples'] = [s_ + 2 ** 32 + 5 for s_ in spec['samples']]
        spec['n_raw'] = spec['n_raw'] + 2 ** 32 + 5
    if spec['raw'] and spec['raw']['backend'] == 'cbin':
        # keep <= 20 chunks so that the 20-chunk sub-selection keeps every spike
        spec['raw']['chunk'] = max(spec['raw']['chunk'], int(ceil(spec['n_raw'] / 18.0)))
    return {'spec': spec, 'label': draw(st.sampled_from(LABELS)),
            'factor': draw(st.sampled_from([1, 2, 2.5, 1e-6])),
            'extras': draw(st.lists(st.sampled_from(['kslabel', 'channel_labels', 'cluster_shanks',
                                                      'subset', 'temp_wh']), unique=True,
                                    max_size=4)),
            'ncc': draw(st.sampled_from([12, 12, 3, 5])),
            'samedir': draw(st.sampled_from(['plain', 'str', 'dotdot', 'symlink', 'relative'])),
            'second': draw(st.booleans()), 'second_label': draw(st.sampled_from(LABELS)),
            'reexport': draw(st.none() | st.lists(D._curation_op, min_size=1, max_size=3)),
            # the output folder is the user's: blanks, brackets, glob characters
            'outname': draw(st.sampled_from(['alf', 'alf', 'alf [probe00]', 'out*put', 'a?f',
                                             'alf (2020-01-31)']))}


def drivers(tier):
    th = tier == 'thorough'
    return [dict(kind='hyp', name='conversions', strategy=_case(), examples=50000 if th else 6000)]


def add_extras(T, extras, n_clusters):
    d = T.dir
    if 'kslabel' in extras:
        with open(d / 'cluster_KSLabel.tsv', 'w') as f:
            f.write('cluster_id\tKSLabel\n')
            for c in sorted(set(int(x) for x in T.spike_clusters)):
                f.write('%d\t%s\n' % (c, 'good' if c % 2 else 'mua'))
    if 'channel_labels' in extras:
        np.save(d / 'channel_labels.npy', np.arange(T.spec['nc'], dtype=np.int32)[:, None])
    if 'cluster_shanks' in extras and n_clusters >= 2:     # (1,1) would be squeezed to 0-d
        np.save(d / 'cluster_shanks.npy', np.zeros((n_clusters, 1), dtype=np.int32))
    if 'temp_wh' in extras:
        (d / 'temp_wh.dat').write_bytes(b'\x01\x02' * 50)
    if 'subset' in extras and T.raw is None:
        # spike waveforms extracted earlier (the raw data are not available any more)
        ns, nsw = T.spec['ns'], T.spec['nsw']
        np.save(d / '_phy_spikes_subset.spikes.npy', np.array([0, ns - 1], dtype=np.int64))
        np.save(d / '_phy_spikes_subset.channels.npy', np.array([[0, 1], [1, -1]], dtype=np.int32))
        np.save(d / '_phy_spikes_subset.waveforms.npy',
                (np.arange(2 * nsw * 2).reshape((2, nsw, 2)) * 0.5).astype(np.float32))


def first_dim(path):
    if path.suffix == '.npy':
        shape = np.load(path).shape
        return shape[0] if shape else ()
    if path.suffix == '.csv':
        lines = path.read_text().split('\n')
        return len(lines) - 1
    return None


def check_file_set(out, label, ns, n_clusters, nt, nc):
    expected = {'spikes.': ns, 'clusters.': n_clusters, 'templates.': nt, 'channels.': nc}
    seen = {k: 0 for k in expected}
    for p in sorted(out.iterdir()):
        fam = next((f for f in FAMILIES if p.name.startswith(f)), None)
        if p.suffix == '.npy':
            try:
                arr = np.load(p)
            except Exception as e:
                raise Violation('%s does not load: %s' % (p.name, type(e).__name__),
                                key='unloadable')
        if fam is None:
            if label:
                require('.%s.' % label not in p.name, 'label applied outside the four families: '
                        '%s' % p.name, key='label-outside')
            continue
        seen[fam] += 1
        n = first_dim(p)
        require(n == expected[fam], '%s: first dimension %r != %d' % (p.name, n, expected[fam]),
                key='first-dim:' + fam, observed=n, expected=expected[fam])
        parts = p.name.split('.')
        if label:
            require(len(parts) >= 4 and parts[-2] == label, 'label not inserted before the '
                    'extension of %s' % p.name, key='label', observed=p.name)
        else:
            require(len(parts) == 3, 'unexpected part in %s without a label' % p.name,
                    key='label', observed=p.name)
    for fam, k in seen.items():
        require(k >= 1, 'no %s* file written' % fam, key='family-missing')


def verify_output(out, out_model, T, sc, n_clusters, label):
    """File-set predicate, spike tables, identifiers and reload equality for one conversion."""
    ns, nt, nc = T.spec['ns'], T.spec['nt'], T.spec['nc']
    # -- file set -------------------------------------------------------------------
    check_file_set(out, label, ns, n_clusters, nt, nc)
    lab = ('.' + label) if label else ''
    times = np.load(out / ('spikes.times%s.npy' % lab))
    same_array('spikes.times (seconds)', times, T.samples / T.rate, key='spikes-times',
               dtype=False, tol=(1e-12, 0))
    samples = np.load(out / ('spikes.samples%s.npy' % lab))
    same_array('spikes.samples', samples, T.samples, key='spikes-samples', dtype=False)
    # uuids
    lines = (out / ('clusters.uuids%s.csv' % lab)).read_text().split('\n')
    require(lines[0] == 'uuids' and len(lines) == n_clusters + 1, 'clusters.uuids layout',
            key='uuids', observed=lines[:3])
    try:
        us = [uuid.UUID(x) for x in lines[1:]]
    except Exception:
        raise Violation('clusters.uuids holds an unparseable identifier', key='uuids')
    require(len(set(us)) == n_clusters, 'cluster identifiers not unique', key='uuids')
    # -- the output loads back to the same spikes ---------------------------------------
    require(out_model is not None, 'convert returned no model', key='no-model')
    same_array('reloaded spike_times', out_model.spike_times, T.samples / T.rate,
               key='reload-times', dtype=False, tol=(1e-12, 0))
    same_array('reloaded spike_samples', np.asarray(out_model.spike_samples).astype(np.int64),
               T.samples.astype(np.int64), key='reload-samples')
    same_array('reloaded spike_clusters', np.asarray(out_model.spike_clusters).astype(np.int64),
               np.array(sc, dtype=np.int64), key='reload-clusters')
    same_array('reloaded spike_templates',
               np.asarray(out_model.spike_templates).astype(np.int64),
               T.spike_templates.astype(np.int64), key='reload-templates')
    same_array('reloaded channel_positions', out_model.channel_positions, T.pos,
               key='reload-positions', dtype=False)
    same_array('reloaded channel_mapping',
               np.asarray(out_model.channel_mapping).astype(np.int64),
               T.chmap.astype(np.int64), key='reload-chmap')


def check(case):
    # the export computes spike depths; their denominator (summed positive feature part) may be 0,
    # which the unchanged code turns into NaN under the default floating-point error state only
    with core.without(*(('fp', 'warn') if case['spec']['pcf'] else ())):
        return _check(case)


def _check(case):
    spec, label = case['spec'], case['label']
    info = {}
    with env.scratch() as d:
        T = D.build(spec, d / 'src')
        ns, nt, nc = spec['ns'], spec['nt'], spec['nc']
        sc = [int(x) for x in T.spike_clusters]
        n_clusters = (max(sc) + 1) if T.curated else nt
        add_extras(T, case['extras'], n_clusters)
        m = D.load(T, must_return)
        mt = getattr(getattr(m, 'traces', None), 'reader', None)
        out_model = None
        try:
            m.n_closest_channels = case['ncc']
            np.random.seed(spec['seed'] % (2 ** 32))
            creator = must_return('EphysAlfCreator()', EphysAlfCreator, m)
            before = D.sha_dir(T.dir)
            # converting into the source directory is refused and writes nothing
            # (under any spelling of that directory)
            how = case.get('samedir', 'plain')
            target = T.dir
            if how == 'str':
                target = str(T.dir)
            elif how == 'dotdot':
                target = T.dir / '..' / T.dir.name
            elif how == 'symlink':
                target = d / 'link_to_src'
                target.symlink_to(T.dir, target_is_directory=True)
            elif how == 'relative':
                import os
                target = os.path.relpath(str(T.dir))
            must_raise('convert(source directory spelled as %s)' % how, IOError, creator.convert,
                       target, **({'force': True} if case.get('second') else {}))
            require(D.sha_dir(T.dir) == before, 'refused conversion changed the source directory',
                    key='same-dir-wrote')
            out = d / case.get('outname', 'alf')
            out_model = must_return('convert', creator.convert, out, label=label,
                                    ampfactor=case['factor'])
            verify_output(out, out_model, T, sc, n_clusters, label)
            # -- source directory -----------------------------------------------------------------
            after = D.sha_dir(T.dir)
            subset = {'_phy_spikes_subset.waveforms.npy', '_phy_spikes_subset.spikes.npy',
                      '_phy_spikes_subset.channels.npy'}
            for name, h in before.items():
                if name == 'temp_wh.dat':
                    require(name not in after, 'temp_wh.dat not deleted', key='temp-wh')
                    continue
                if name in subset and T.raw is not None:
                    continue    # extracted again from the raw data (no raw data: kept as they are)
                require(after.get(name) == h, 'source file %s changed or disappeared' % name,
                        key='source-changed', observed=name)
            added = set(after) - set(before)
            require(added <= subset, 'conversion added files to the source directory',
                    key='source-added', observed=sorted(added))
            info['subset_written'] = bool(added)
            # -- a second conversion from the same model object, into another directory ------------
            if case.get('second'):
                out2 = d / 'alf2'
                om2 = must_return('convert (second, same model)', creator.convert, out2,
                                  label=case['second_label'], ampfactor=case['factor'])
                try:
                    verify_output(out2, om2, T, sc, n_clusters, case['second_label'])
                finally:
                    try:
                        om2.close()
                    except Exception:
                        pass
            # -- history: curate again, reload, convert again into the SAME directory (force) --------
            new = D.apply_curation(sc, case['reexport']) if case.get('reexport') else None
            if new is not None and (T.dir / 'cluster_shanks.npy').exists() and \
                    new != [int(x) for x in T.spike_templates] and max(new) + 1 < 2:
                new = None      # a one-row per-cluster input file would be squeezed to 0-d
            if new is not None and not label:
                must_return('save_spike_clusters', m.save_spike_clusters, np.array(new, dtype=np.int32))
                for mm in (m, out_model):
                    try:
                        mm.close()
                    except Exception:
                        pass
                m = D.load(T, must_return)
                out_model = None
                m.n_closest_channels = case['ncc']
                T.spike_clusters = np.array(new, dtype=np.int64)
                curated2 = new != [int(x) for x in T.spike_templates]
                n2 = (max(new) + 1) if curated2 else nt
                if (T.dir / 'cluster_shanks.npy').exists():
                    # per-cluster input file of the source: keep it in step with the new curation
                    np.save(T.dir / 'cluster_shanks.npy', np.zeros((n2, 1), dtype=np.int32))
                creator2 = must_return('EphysAlfCreator()', EphysAlfCreator, m)
                out_model = must_return('convert (again, same directory, force)', creator2.convert,
                                        out, force=True, label='', ampfactor=case['factor'])
                verify_output(out, out_model, T, new, n2, '')
                info['reexported'] = True
        finally:
            for mm in (m, out_model):
                try:
                    if mm is not None:
                        mm.close()
                except Exception:
                    pass
            if mt is not None:
                try:
                    mt.close()
                except Exception:
                    pass
    info['emptied'] = T.curated and len(set(sc)) < max(sc) + 1
    return info


def classify(case, info):
    s = case['spec']
    labels = ['label:%r' % case['label'], 'factor:%r' % case['factor']]
    nt = False
    if s['curation']:
        labels.append('curated' + ('-with-emptied-ids' if info.get('emptied') else '-no-empty-id'))
        nt = True
    if case['label']:
        nt = True
    if s['col2d']:
        labels.append('col2d')
        nt = True
    if s['raw'] is None:
        labels.append('no-raw')
        nt = True
    else:
        labels.append('raw:' + s['raw']['backend'])
    if s['pcf']:
        labels.append('features')
    for e in case['extras']:
        labels.append('extra:' + e)
    if case.get('second'):
        labels.append('second-conversion-same-model')
    if case.get('outname', 'alf') != 'alf':
        labels.append('special-characters-in-output-folder-name')
    if info.get('reexported'):
        labels.append('re-export-into-same-directory')
    if max(s['spike_templates']) < s['nt'] - 1:
        labels.append('highest-template-unused')
    if s['samples'][-1] >= 2 ** 32:
        labels.append('samples-beyond-2**32')
    return labels, nt
