# -*- coding: utf-8 -*-
"""C04 - loading a dataset reproduces its files under every supported layout."""

import os

import numpy as np
from hypothesis import strategies as st

from .. import env, core, datasets as D
from ..core import require, must_return, must_raise, same_array, Violation

env.import_phylib()
from phylib.io.model import load_model  # noqa: E402

ID = 'C04'
LEVEL = 'exploration'
RULE = (
    "Hypothesis dataset specs over the switch product: KS vs ALF file names (ALF always with a "
    "clusters file) x (n,) vs (n,1) stored vectors x presence of spike_clusters, amplitudes, "
    "whitening (+ inverse file), shanks, probes, pc features (+row table), template features "
    "(+row table), similar templates, raw data (flat 1-3 files with header offset / npy / cbin), "
    "dense vs sparse templates, id and time dtypes, raw file with more channels than the channel "
    "map, NaN/inf injected into fully loaded arrays (amplitudes, similar templates, a spike "
    "attribute), an all-NaN unused template, extra spike_*.npy attributes of right and wrong "
    "length, curated clusters. Sizes: 2-40 spikes, 2-6 templates, 2-10 channels. In 1 of 5 cases "
    "two distinct spike times are swapped and loading must raise ValueError and leave the directory "
    "exactly as it was. Oracle: the arrays "
    "the generator stored (before np.save), squeezed, with documented defaults; SHA-256 of every "
    "pre-existing file before/after load_model()+close(); set of created files. Non-trivial: the "
    "spec differs from 'all files present, KS names, 1-D vectors' in >= 1 switch."
    ' Later additions: directory names with glob characters, dataset reached through a symlinked '
    'directory, raw data at ../<name>, symlinked files, a stored inverse that is only approximate'
    'ly the inverse and older than the matrix file, integer whitening matrices, 2**20+7 spikes wi'
    'th one inversion on a power-of-two boundary, a rejected load leaves the directory untouched,'
    ' an in-place edit of spike_clusters leaves the other arrays equal to their files, a dataset'
    ' with the stored inverse but no whitening matrix file.')
ASSUMPTIONS = ['datasets with >=2 spikes/templates/channels/samples (squeeze degeneracy is a '
               'documented precondition)', 'mtscomp as codec']


@st.composite
def _case(draw):
    spec = draw(D.dataset_spec(nan=True, probe_labels=True, raw_parent=True, symlinks=True))
    reads = [[draw(st.integers(0, spec['n_raw'] - 1)), draw(st.integers(1, 12))] for _ in range(3)]
    return {'spec': spec, 'nonmono': draw(st.integers(0, 4)) == 0, 'reads': reads,
            'decoy': draw(st.booleans()), 'dirname': draw(st.sampled_from(DIRNAMES)),
            'via_symlink': draw(st.integers(0, 3)) == 0}


# directory names are the user's: blanks, brackets and other characters that mean something to
# glob / fnmatch / regular expressions are ordinary characters in a path
DIRNAMES = ['ds', 'ds', 'ds', 'probe [imec0]', 'run*1', 'what?', 'a[0-9]b', 'sorted (ks2.5)',
            'x{1,2}', '~tmp', 'rec#1 100%']


def _large_cases(th):
    # spike counts beyond 2**16 / 2**18 / 2**20 with one inversion exactly on such a boundary or
    # anywhere else; the good variant is loaded and compared in full
    sizes = [(2 ** 20 + 7, [2 ** 20 - 1, 2 ** 16 - 1])] + (
        [(2 ** 20 + 7, [2 ** 18 - 1, 2 ** 19 - 1, 2 ** 20 + 5, 0, 777777]),
         (2 ** 21 + 3, [2 ** 21 - 1, 2 ** 20 - 1])] if th else [])
    for ns, swaps in sizes:
        for sw in swaps:
            yield {'large': {'ns': ns, 'seed': sw % 89}, 'swap': sw, 'nonmono': True, 'reads': [],
                   'decoy': False}


def _large_spec(par):
    spec = D.large_spec(par['ns'], seed=par['seed'])
    spec['pcf'] = None
    spec['samples'] = (np.arange(par['ns'], dtype=np.int64) * 3 + 1).tolist()
    return spec


def drivers(tier):
    th = tier == 'thorough'
    return [dict(kind='enum', name='large', exhaustive=False,
                 bound='more than 2**20 spikes, one inversion on a power-of-two boundary',
                 cases=lambda: _large_cases(th)),
            dict(kind='hyp', name='datasets', strategy=_case(), examples=120000 if th else 10000)]


def _expected_samples(T):
    if T.spec['naming'] == 'alf':
        if T.alf_samples_file:
            return T.samples
        return np.round(T.times * T.rate).astype(np.uint64)
    return T.samples


def _scrub(a):
    a = np.array(a, copy=True)
    a[np.isnan(a) | np.isinf(a)] = 0
    return a


def check(case):
    spec = case['spec'] if 'spec' in case else _large_spec(case['large'])
    info = {}
    with env.scratch() as d:
        if case['nonmono'] and len(set(spec['samples'])) >= 2:
            bad = dict(spec)
            s = list(spec['samples'])
            i = case['swap'] if 'swap' in case else \
                next(k for k in range(len(s) - 1) if s[k] != s[k + 1])
            s[i], s[i + 1] = s[i + 1], s[i]
            bad['samples'] = s
            T = D.build(bad, d / 'bad')
            before_bad = D.sha_dir(T.dir)
            must_raise('load_model(non-monotonic spike times)', ValueError, load_model,
                       T.params_path)
            # a rejected load has no effect: the directory is exactly as it was (otherwise the
            # copy made from the unsorted templates would survive the user's repair of the files)
            after_bad = D.sha_dir(T.dir)
            require(after_bad == before_bad, 'a rejected load created or changed files',
                    key='rejected-load-side-effect',
                    observed=sorted(set(after_bad.items()) ^ set(before_bad.items())))
            info['nonmono'] = True
        T = D.build(spec, d / case.get('dirname', 'ds'))
        before = D.sha_dir(T.dir)
        if case.get('via_symlink'):
            # the dataset is reached through a symbolic link that lives somewhere else
            (d / 'shortcuts' / 'deeper').mkdir(parents=True)
            link = d / 'shortcuts' / 'deeper' / 'current'
            os.symlink(str(T.dir), str(link), target_is_directory=True)
            T.params_path = link / 'params.py'
        cwd = os.getcwd()
        if T.raw is not None and case.get('decoy') and spec['raw'].get('where') != 'parent':
            # another session's folder with equally named raw files is the current directory
            decoy = d / 'other_session'
            decoy.mkdir()
            for name in T.params['dat_path']:
                src = (T.dir / name).read_bytes()
                (decoy / name).write_bytes(bytes((b + 1) % 256 for b in src))
                if name.endswith('.cbin'):
                    (decoy / name).with_suffix('.ch').write_bytes(
                        (T.dir / name).with_suffix('.ch').read_bytes())
            os.chdir(str(decoy))
        try:
            m = D.load(T, must_return)
        finally:
            os.chdir(cwd)
        try:
            ns, nt, nc = spec['ns'], spec['nt'], spec['nc']
            require((m.n_spikes, m.n_templates, m.n_channels) == (ns, nt, nc), 'sizes',
                    key='sizes', observed=(m.n_spikes, m.n_templates, m.n_channels),
                    expected=(ns, nt, nc))
            same_array('spike_samples', m.spike_samples, _expected_samples(T), key='spike_samples')
            same_array('spike_times', m.spike_times, T.times, key='spike_times', tol=(1e-12, 0))
            same_array('spike_templates', m.spike_templates, T.spike_templates,
                       key='spike_templates')
            same_array('spike_clusters', m.spike_clusters, T.spike_clusters.astype(np.int32),
                       key='spike_clusters')
            if T.amplitudes is None:
                require(m.amplitudes is None, 'amplitudes should be None', key='amplitudes')
            else:
                same_array('amplitudes', m.amplitudes, _scrub(T.amplitudes), key='amplitudes')
            same_array('channel_mapping', m.channel_mapping, T.chmap, key='channel_mapping')
            same_array('channel_positions', m.channel_positions, T.pos_stored, key='channel_positions')
            exp_sh = T.shanks if T.shanks is not None else np.zeros(nc, dtype=np.int32)
            same_array('channel_shanks', m.channel_shanks, exp_sh, key='channel_shanks', dtype=False)
            exp_pr = T.probes if T.probes is not None else np.zeros(nc)
            same_array('channel_probes', m.channel_probes, exp_pr, key='channel_probes',
                       dtype=False)
            same_array('probes', m.probes, sorted(set(int(x) for x in exp_pr)), key='probes',
                       dtype=False)
            # templates
            exp_t = np.array(T.templates, copy=True)
            if T.nan_template is not None:
                exp_t[T.nan_template] = 0
            same_array('sparse_templates.data', np.asarray(m.sparse_templates.data), exp_t,
                       key='templates')
            if T.tcols is None:
                require(m.sparse_templates.cols is None, 'templates should be dense',
                        key='templates-cols')
            else:
                same_array('sparse_templates.cols', m.sparse_templates.cols, T.tcols,
                           key='templates-cols')
            # whitening
            exp_wm = T.wm if T.wm is not None else np.eye(nc)
            same_array('wm', m.wm, exp_wm, key='wm', dtype=False)
            if T.wmi_file is not None:
                same_array('wmi (file)', m.wmi, T.wmi_file, key='wmi', dtype=False)
            else:
                same_array('wmi (computed)', m.wmi, np.linalg.inv(exp_wm), key='wmi', dtype=False,
                           tol=(1e-9, 1e-12))
            exp_sim = _scrub(T.sim) if T.sim is not None else np.zeros((nt, nt))
            same_array('similar_templates', m.similar_templates, exp_sim, key='similar_templates',
                       dtype=False)
            # features
            if T.pcf is None:
                require(m.sparse_features is None, 'features should be absent', key='features')
            else:
                sf = m.sparse_features
                same_array('sparse_features.data', np.asarray(sf.data),
                           T.pcf.transpose((0, 2, 1)), key='features')
                same_array('sparse_features.cols', np.asarray(sf.cols), T.pcf_ind,
                           key='features-cols')
                if T.pcf_rows is None:
                    require(sf.rows is None, 'features rows should be None', key='features-rows')
                else:
                    same_array('sparse_features.rows', sf.rows, T.pcf_rows, key='features-rows')
            if T.tf is None:
                require(m.sparse_template_features is None, 'template features should be absent',
                        key='tfeatures')
            else:
                sf = m.sparse_template_features
                same_array('sparse_template_features.data', np.asarray(sf.data), T.tf,
                           key='tfeatures')
                same_array('sparse_template_features.cols', sf.cols, T.tf_ind, key='tfeatures-cols')
                if T.tf_rows is None:
                    require(sf.rows is None, 'tf rows should be None', key='tfeatures-rows')
                else:
                    same_array('sparse_template_features.rows', sf.rows, T.tf_rows,
                               key='tfeatures-rows')
            # spike attributes: exactly those of matching length
            require(sorted(m.spike_attributes.keys()) == sorted(T.attrs.keys()),
                    'spike_attributes keys', key='spike-attrs',
                    observed=sorted(m.spike_attributes.keys()), expected=sorted(T.attrs.keys()))
            for k, a in T.attrs.items():
                same_array('spike_attributes[%s]' % k, m.spike_attributes[k],
                           _scrub(a) if a.dtype.kind == 'f' else a, key='spike-attrs')
            # raw traces
            require(m.n_channels_dat == spec['ncd'], 'n_channels_dat', key='ncd')
            if T.raw is None:
                require(m.traces is None, 'traces should be None', key='traces')
            else:
                exp = T.raw[:, T.chmap.astype(np.int64)]
                out = must_return('traces[:]', lambda: m.traces[:])
                same_array('traces[:]', out, exp, key='traces')
                for k, (a, ln) in enumerate(case['reads']):
                    b = min(spec['n_raw'], a + ln)
                    if k == 1 and nc >= 2:
                        # a read with a channel selector in between must not change later reads
                        out = must_return('traces[a:b, cols]', lambda: m.traces[a:b, [nc - 1, 0]])
                        same_array('traces[%d:%d, [last, first]]' % (a, b), out,
                                   exp[a:b][:, [nc - 1, 0]], key='traces-cols')
                    out = must_return('traces[a:b]', lambda: m.traces[a:b])
                    same_array('traces[%d:%d]' % (a, b), out, exp[a:b], key='traces')
            # manual clustering edits the in-memory cluster vector in place; every other array
            # still equals its file
            if ns >= 2:
                m.spike_clusters[0] = int(m.spike_clusters[0]) + 1
                same_array('spike_templates (after an in-place edit of spike_clusters)',
                           m.spike_templates, T.spike_templates, key='spike_templates')
        finally:
            must_return('close', m.close)
            tr = getattr(m, 'traces', None)
            mt = getattr(tr, 'reader', None)
            if mt is not None:
                try:
                    mt.close()
                except Exception:
                    pass
        after = D.sha_dir(T.dir)
        changed = sorted(k for k in before if after.get(k) != before[k])
        require(not changed, 'loading modified pre-existing files', key='files-modified',
                observed=changed)
        created = set(after) - set(before)
        allowed = set()
        if not T.clusters_file:
            allowed.add('spike_clusters.npy')
        if 'whitening_mat_inv.npy' not in before:
            allowed.add('whitening_mat_inv.npy')
        require(created <= allowed, 'loading created unexpected files', key='files-created',
                observed=sorted(created), expected=sorted(allowed))
        if not T.clusters_file:
            require('spike_clusters.npy' in created, 'spike_clusters.npy copy not created',
                    key='clusters-copy')
    return info


def classify(case, info):
    if 'large' in case:
        return ['large:%d-spikes' % case['large']['ns'], 'non-monotonic-variant'], True
    s = case['spec']
    labels = ['naming:' + s['naming']]
    sw = []
    if case.get('dirname', 'ds') != 'ds':
        labels.append('special-characters-in-directory-name')
    if case.get('via_symlink'):
        labels.append('opened-through-a-symlinked-directory')
    if s['raw'] and s['raw'].get('where') == 'parent':
        labels.append('raw-data-in-parent-directory')
    if s['naming'] == 'alf':
        sw.append('alf')
    if s['col2d']:
        sw.append('col2d')
    if not s['clusters_file']:
        sw.append('no-clusters-file')
    if not s['amplitudes']:
        sw.append('no-amplitudes')
    if not s['wm']:
        sw.append('no-whitening')
    if s['wmi_file']:
        sw.append('wmi-file')
    if s.get('wmi_only'):
        sw.append('wmi-file-only')
    if s['shanks'] is not None:
        sw.append('shanks')
    if s['probes_file']:
        sw.append('probes-file')
    if not s['templates']['dense']:
        sw.append('sparse-templates')
    if s['templates'].get('nan_template'):
        sw.append('nan-template:' + s['templates'].get('nan_kind', 'all'))
    if s['pcf'] is None:
        sw.append('no-features')
    elif s['pcf']['rows'] is not None:
        sw.append('feature-rows')
    if s['tf'] is None:
        sw.append('no-tfeatures')
    if not s['sim']:
        sw.append('no-similar')
    if s['raw'] is None:
        sw.append('no-raw')
    else:
        sw.append('raw:' + s['raw']['backend'])
        if s['raw']['offset']:
            sw.append('raw-offset')
        if len(s['raw']['parts']) > 1:
            sw.append('raw-multifile')
    if s['ncd'] > s['nc']:
        sw.append('extra-raw-channels')
    if s['nan']:
        sw.append('nan-injected')
    if s['curation']:
        sw.append('curated')
    if s['attrs']:
        sw.append('spike-attrs')
    if info.get('nonmono'):
        sw.append('non-monotonic-variant')
    return labels + sw, bool(sw)
