# -*- coding: utf-8 -*-
"""C17 - spike selection honours its cluster, chunk, subset and count constraints."""

from math import ceil

import numpy as np
from hypothesis import strategies as st

from .. import env
from ..core import require, must_return, as_int_kind

env.import_phylib()
from phylib.io.array import SpikeSelector  # noqa: E402

ID = 'C17'
LEVEL = 'exploration'
RULE = (
    "Hypothesis: chunk grids of 2..9 strictly increasing bounds (integers or half-integers, "
    "independently of the time dtype); 0..40 sorted spike times (int or "
    "float), each drawn with probability 1/2 exactly on a bound (incl. first and last) else "
    "anywhere inside or slightly outside the grid; cluster vector over a gapped alphabet; "
    "n_chunks_kept 1..8; per selector up to 6 calls with count in {None,0,-1,-5,1,2,5,100}, requested "
    "cluster list (empty, unknown ids, repeats), subset_chunks on/off, subset_spikes None or a "
    "generated id list; np.random seeded from the case before every call. Oracle (constraint "
    "style, valid for every random draw): strictly increasing output; membership in requested "
    "clusters / kept chunks (bound[i] <= t < bound[i+1]) / subset; chunks_kept == whole grid "
    "intervals at stride max(1,ceil(n_chunks/n_kept)) from the first, at most n_kept; per "
    "requested cluster all eligible spikes if eligible <= count or count None/<=0, else exactly "
    "count. (model) generated datasets with more than 20 chunks and a sample rate different from 1: the "
    "selection written by TemplateModel.save_spikes_subset_waveforms is checked against the same "
    "constraints. (big) hand-made clusters of 30 000 spikes (thorough: up to 1.5 million) of which "
    "a few dozen are eligible. Non-trivial: a spike exactly on a bound, or a stride >1 that does not divide the "
    "number of chunks, or a cluster with more eligible spikes than requested."
    ' Later additions: counts as NumPy integers, chunk grids of 120-30 000 chunks with the kept c'
    'ount as uint8/int8/int16, subsets listing an id twice, unsorted time vectors, clusters of 30'
    ' 000+ spikes with sparse eligibility, the selection exported by EphysAlfCreator.convert.')
ASSUMPTIONS = ['np.random.choice(replace=False) returns distinct elements of its input']

ALPH = [0, 1, 3, 4, 8]


@st.composite
def _case(draw):
    nb = draw(st.integers(2, 9))
    as_float = draw(st.booleans())          # spike times as floats
    frac_bounds = draw(st.booleans())       # chunk grid on half-integers (any time dtype)
    steps = draw(st.lists(st.integers(1, 6), min_size=nb - 1, max_size=nb - 1))
    b0 = draw(st.integers(0, 3))
    bounds = [b0]
    for s in steps:
        bounds.append(bounds[-1] + s)
    if frac_bounds:
        bounds = [b + 0.5 * draw(st.integers(0, 1)) for b in bounds]
        bounds = [bounds[0]] + [max(b, a + 0.5) for a, b in zip(bounds, bounds[1:])]
        for i in range(1, len(bounds)):
            if bounds[i] <= bounds[i - 1]:
                bounds[i] = bounds[i - 1] + 0.5
    n = draw(st.integers(0, 40))
    lo, hi = int(bounds[0]) - 1, int(bounds[-1]) + 2
    if as_float:
        on_bound = st.sampled_from(bounds)
        anywhere = st.integers(lo, hi) | st.floats(lo, hi, allow_nan=False).map(
            lambda x: round(x * 4) / 4)
    else:
        # integer times: on integer bounds, or right next to fractional ones
        near = sorted(set(int(b) for b in bounds) | set(int(b) + 1 for b in bounds))
        on_bound = st.sampled_from(near)
        anywhere = st.integers(lo, hi)
    times = sorted(draw(st.lists(on_bound | anywhere, min_size=n, max_size=n)))
    if as_float:
        times = [float(t) for t in times]
    bounds_out = [float(b) if (frac_bounds or (as_float and draw(st.booleans()))) else int(b)
                  for b in bounds]
    clusters = draw(st.lists(st.sampled_from(ALPH), min_size=n, max_size=n))
    nkept = draw(st.integers(1, 8))
    calls = []
    for _ in range(draw(st.integers(1, 6))):
        calls.append({
            'n': draw(st.sampled_from([None, 0, 1, 2, 5, 100, -1, -5])),
            'cids': draw(st.lists(st.sampled_from(ALPH + [2, 9]), max_size=5)),
            'sc': draw(st.booleans()),
            # (a subset assembled from several selections may list an id more than once)
            'ss': draw(st.none() | st.lists(st.integers(0, max(0, n + 1)), max_size=n + 2,
                                            unique=True) |
                       st.lists(st.integers(0, max(0, n + 1)), max_size=n + 4)),
        })
    return {'bounds': bounds_out, 'times': times, 'clusters': clusters, 'nkept': nkept,
            'calls': calls, 'np_seed': draw(st.integers(0, 2 ** 31 - 1)),
            'array_bounds': draw(st.booleans()), 'kinds': draw(st.integers(0, 7))}


def _big_cases(th):
    # clusters of tens of thousands of spikes of which only a few are eligible
    for i, n in enumerate([30000] + ([10001, 200000, 1500000] if th else [])):
        yield {'k': 'big', 'n': n, 'seed': 17 + i}
    # the time vector need not be sorted (the selector is a stand-alone class)
    for i, n in enumerate([70000] + ([140000] if th else [])):
        yield {'k': 'big', 'n': n, 'seed': 40 + i, 'unsorted': True}


def _grid_cases(th):
    # long chunk grids with the kept-chunk count handed over as a narrow NumPy integer
    for nchunks, nkept, dt in [(200, 100, 'uint8'), (120, 20, 'int8'), (30000, 3000, 'int16')] + (
            [(250, 7, 'uint8'), (127, 127, 'int8'), (65000, 600, 'uint16'), (200, 100, 'int64')]
            if th else []):
        yield {'k': 'grid', 'nchunks': nchunks, 'nkept': nkept, 'nkept_dtype': dt}


def _expand_grid(par):
    n = par['nchunks']
    times = list(range(0, n))[:2000] if n <= 2000 else list(range(0, n, n // 2000))
    return {'bounds': list(range(0, n + 1)), 'times': times,
            'clusters': [[0, 1, 3][i % 3] for i in range(len(times))], 'nkept': par['nkept'],
            'nkept_dtype': par['nkept_dtype'],
            'calls': [{'n': 5, 'cids': [0, 3], 'sc': True, 'ss': None},
                      {'n': None, 'cids': [1], 'sc': True, 'ss': None}],
            'np_seed': n, 'array_bounds': True}


def _expand_big(par):
    n = par['n']
    rs = np.random.RandomState(par['seed'])
    times = np.sort(rs.randint(0, 4 * n, size=n))
    if par.get('unsorted'):
        times = rs.permutation(times)
    times = times.tolist()
    clusters = [0] * n
    for i in rs.randint(0, n, size=50):
        clusters[int(i)] = [1, 3][int(i) % 2]
    bounds = list(range(0, 4 * n + 1, n // 10))
    sparse = sorted(set(rs.randint(0, n, size=65).tolist()))
    calls = [{'n': 100, 'cids': [0, 3], 'sc': False, 'ss': sparse},
             {'n': 1000, 'cids': [0], 'sc': True, 'ss': sparse},
             {'n': 5, 'cids': [1, 0], 'sc': True, 'ss': None},
             {'n': 7, 'cids': [0], 'sc': False, 'ss': sparse},
             {'n': None, 'cids': [0, 1, 3], 'sc': True, 'ss': list(range(0, n, 7))}]
    return {'bounds': bounds, 'times': times, 'clusters': clusters, 'nkept': 3, 'calls': calls,
            'np_seed': par['seed'], 'array_bounds': True}


def drivers(tier):
    th = tier == 'thorough'
    from . import c17_model
    return [dict(kind='enum', name='grid', exhaustive=False,
                 bound='grids of 120..30 000 chunks, kept-chunk count as uint8 / int8 / int16',
                 cases=lambda: _grid_cases(th)),
            dict(kind='enum', name='big', exhaustive=False,
                 bound='one cluster of 30 000 (thorough: up to 1 500 000) spikes, few eligible',
                 cases=lambda: _big_cases(th)),dict(kind='hyp', name='selector', strategy=_case(), examples=300000 if th else 25000),
            dict(kind='hyp', name='model', strategy=c17_model.strategy(),
                 examples=10000 if th else 1000)]


def check(case):
    if case.get('k') == 'model':
        from . import c17_model
        return c17_model.check(case)
    if case.get('k') == 'big':
        case = _expand_big(case)
    if case.get('k') == 'grid':
        case = _expand_grid(case)
    bounds, times, clusters = case['bounds'], case['times'], case['clusters']
    nkept = case['nkept']
    n = len(times)
    spc = {}
    for i, c in enumerate(clusters):
        spc.setdefault(c, []).append(i)
    tarr = np.array(times) if n else np.array([], dtype=np.float64 if isinstance(
        bounds[0], float) else np.int64)
    cb = np.array(bounds) if case['array_bounds'] else list(bounds)
    sel = must_return('SpikeSelector()', SpikeSelector,
                      get_spikes_per_cluster=lambda c: np.array(spc.get(int(c), []), dtype=np.int64),
                      spike_times=tarr, chunk_bounds=cb,
                      n_chunks_kept=(np.dtype(case['nkept_dtype']).type(nkept)
                                     if 'nkept_dtype' in case else
                                     as_int_kind(nkept, case.get('kinds', 0))))
    # kept chunks
    n_chunks = len(bounds) - 1
    stride = max(1, int(ceil(n_chunks / nkept)))
    kept_idx = list(range(0, n_chunks, stride))
    ck = np.asarray(sel.chunks_kept).tolist()
    exp_ck = []
    for i in kept_idx:
        exp_ck.extend([bounds[i], bounds[i + 1]])
    require(ck == exp_ck, 'chunks_kept are not the whole grid intervals at the regular stride',
            key='chunks-kept', observed=ck, expected=exp_ck)
    require(len(ck) // 2 <= nkept and ck[:2] == list(bounds[:2]),
            'more kept chunks than requested / first chunk not kept', key='chunks-kept-count',
            observed=ck, expected=nkept)

    def in_kept(t):
        return any(bounds[i] <= t < bounds[i + 1] for i in kept_idx)

    info = {'oversub': False, 'stride': stride, 'n_chunks': n_chunks}
    for ci, call in enumerate(case['calls']):
        np.random.seed((case['np_seed'] + ci) % (2 ** 32))
        ss = None if call['ss'] is None else np.array(call['ss'], dtype=np.int64)
        cnt = call['n'] if call['n'] is None else as_int_kind(call['n'], case.get('kinds', 0) + ci)
        out = must_return('SpikeSelector.__call__', sel, cnt, list(call['cids']),
                          subset_chunks=call['sc'], subset_spikes=ss)
        out = np.asarray(out)
        require(out.ndim == 1 and out.dtype.kind in 'iu', 'selection is not an integer vector',
                key='sel-type', observed=out)
        o = out.tolist()
        require(all(y > x for x, y in zip(o, o[1:])), 'selection not strictly increasing',
                key='sel-increasing', observed=o)
        req = set(call['cids'])
        ss_set = None if call['ss'] is None else set(call['ss'])
        require(all(0 <= i < n and clusters[i] in req for i in o),
                'selected spike outside the requested clusters', key='sel-cluster', observed=o)
        if call['sc']:
            bad = [i for i in o if not in_kept(times[i])]
            require(not bad, 'selected spike outside the kept chunks', key='sel-chunk',
                    observed=(bad, [times[i] for i in bad]), expected=exp_ck)
        if call['ss'] is not None:
            require(set(o) <= ss_set, 'selected spike outside subset_spikes',
                    key='sel-subset', observed=o, expected=call['ss'])
        for c in req:
            elig = [i for i in spc.get(c, [])
                    if (not call['sc'] or in_kept(times[i])) and
                    (ss_set is None or i in ss_set)]
            got = [i for i in o if clusters[i] == c]
            if call['n'] is None or call['n'] <= 0 or len(elig) <= call['n']:
                require(got == elig, 'not all eligible spikes of a cluster returned',
                        key='sel-all', observed=got, expected=elig)
            else:
                info['oversub'] = True
                require(len(got) == call['n'] and set(got) <= set(elig),
                        'over-subscribed cluster: wrong number of spikes', key='sel-count',
                        observed=got, expected=(call['n'], elig))
    return info


def classify(case, info):
    if case.get('k') == 'model':
        from . import c17_model
        return c17_model.classify(case, info)
    if case.get('k') == 'grid':
        return ['grid:%d-chunks-kept-count-as-%s' % (case['nchunks'], case['nkept_dtype'])], True
    if case.get('k') == 'big':
        return ['big:%d-spikes-in-one-cluster' % case['n'], 'sparse-eligibility'] + (
            ['unsorted-times'] if case.get('unsorted') else []), True
    labels = []
    nt = False
    bs = set(case['bounds'])
    if any(t in bs for t in case['times']):
        labels.append('spike-on-bound')
        nt = True
    if info['stride'] > 1 and info['n_chunks'] % info['stride']:
        labels.append('ragged-stride')
        nt = True
    if info['stride'] > 1:
        labels.append('stride>1')
    if info['oversub']:
        labels.append('oversubscribed')
        nt = True
    if any(c['sc'] for c in case['calls']):
        labels.append('subset-chunks')
    if any(c['ss'] is not None for c in case['calls']):
        labels.append('subset-spikes')
    if any(not c['cids'] for c in case['calls']):
        labels.append('empty-request')
    if not case['times']:
        labels.append('no-spikes')
    return labels, nt
