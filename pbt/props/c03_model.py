# -*- coding: utf-8 -*-
"""C03, model level: TemplateModel.get_waveforms from the subset store, from raw data, and for
requests mixing stored and unstored spikes (fallback path)."""

import numpy as np
from hypothesis import strategies as st

from .. import env, core, datasets as D
from ..core import require, must_return, Violation

env.import_phylib()


@st.composite
def strategy(draw):
    spec = draw(D.dataset_spec(raw=True, dense=True, features=False, tfeatures=False, naming='ks',
                               curated=False, max_nc=8))
    ns, nc = spec['ns'], spec['nc']
    queries = []
    for _ in range(3):
        q = draw(st.lists(st.integers(0, ns - 1), min_size=1, max_size=6))
        ch = draw(st.none() | st.lists(st.integers(0, nc - 1), min_size=1, max_size=nc, unique=True))
        queries.append([q, ch])
    return {'k': 'model', 'spec': spec, 'queries': queries, 'factor': draw(st.sampled_from(
        [1, 1.0, 0.5, 2])), 'max_per_template': draw(st.integers(2, 6)),
        'max_channels': draw(st.integers(1, nc)), 'again': draw(st.sampled_from([0, 0, 1, 3])),
        'ncc': draw(st.integers(2, 6))}   # >= 2 stored channels (squeeze)


def _window(A, s, nsw, ch):
    n = A.shape[0]
    out = np.zeros((nsw, len(ch)), dtype=np.float64)
    for r in range(nsw):
        row = s - nsw // 2 + r
        if 0 <= row < n:
            for j, c in enumerate(ch):
                out[r, j] = A[row, c]
    return out


def check(case):
    spec = case['spec']
    info = {'store': False, 'fallback': False}
    with env.scratch() as d:
        T = D.build(spec, d / 'ds')
        m = D.load(T, must_return)
        mt = getattr(getattr(m, 'traces', None), 'reader', None)
        try:
            m.n_closest_channels = min(case['ncc'], spec['nc'])
            nsw, nc = spec['nsw'], spec['nc']
            A = T.raw[:, T.chmap.astype(np.int64)].astype(np.float64)   # mapped channel order
            samples = [int(x) for x in T.samples]

            def expect(q, ch):
                return np.stack([_window(A, samples[s], nsw, ch) for s in q])

            # 1. without store: straight from the raw data
            for q, ch in case['queries']:
                cha = None if ch is None else np.array(ch)
                out = must_return('get_waveforms (raw path)', m.get_waveforms, np.array(q), cha)
                e = expect(q, list(range(nc)) if ch is None else ch)
                require(out.shape == e.shape and np.array_equal(out, e),
                        'get_waveforms (raw path) differs from the zero-padded window',
                        key='model-raw', observed=out, expected=e)
            # 1b. the convenience wrappers (all spikes of a template / cluster on its channels)
            for kind, ids_of, spikes_fn, chans_fn, wrap in (
                    ('template', T.spike_templates, m.get_template_spikes, m.get_template_channels,
                     m.get_template_spike_waveforms),
                    ('cluster', T.spike_clusters, m.get_cluster_spikes, m.get_cluster_channels,
                     m.get_cluster_spike_waveforms)):
                for k in sorted(set(int(x) for x in ids_of))[:3]:
                    sp_k = [i for i, x in enumerate(ids_of) if int(x) == k]
                    ch_k = [int(c) for c in must_return('get_%s_channels' % kind, chans_fn, k)]
                    out = must_return('get_%s_spike_waveforms' % kind, wrap, k)
                    e = expect(sp_k, ch_k)
                    require(np.asarray(out).shape == e.shape and np.array_equal(out, e),
                            'get_%s_spike_waveforms(%d) is not the windows of its spikes on its '
                            'channels' % (kind, k), key='model-wrapper', observed=out, expected=e)
            # 2. export the subset store, then look up
            if D.store_selection_size(T, m, case['max_per_template']) < 2:
                return info
            np.random.seed(spec['seed'] % (2 ** 32))
            must_return('save_spikes_subset_waveforms', m.save_spikes_subset_waveforms,
                        max_n_spikes_per_template=case['max_per_template'],
                        max_n_channels=case['max_channels'], sample2unit=case['factor'])
            sw = m.spike_waveforms
            require(sw is not None, 'store not loaded after export', key='model-store-missing')
            info['store'] = True
            ids = np.asarray(sw.spike_ids).tolist()
            require(all(b > a for a, b in zip(ids, ids[1:])), 'stored ids not increasing',
                    key='model-store-ids', observed=ids)
            chans = np.asarray(sw.spike_channels)
            f = case['factor']
            if case.get('again'):
                # export once more with another per-template limit: the store in memory must follow
                np.random.seed((spec['seed'] + 1) % (2 ** 32))
                mpt2 = case['max_per_template'] + case['again']
                must_return('save_spikes_subset_waveforms (second export)',
                            m.save_spikes_subset_waveforms, max_n_spikes_per_template=mpt2,
                            max_n_channels=case['max_channels'], sample2unit=case['factor'])
                sw = m.spike_waveforms
                ids = np.asarray(sw.spike_ids).tolist()
                chans = np.asarray(sw.spike_channels)
                disk = np.load(T.dir / '_phy_spikes_subset.spikes.npy').tolist()
                require(ids == disk, 'store in memory differs from the exported files after a second '
                        'export', key='model-store-stale', observed=ids, expected=disk)
            for q, ch in case['queries']:
                cha = None if ch is None else np.array(ch)
                chl = list(range(nc)) if ch is None else ch
                out = must_return('get_waveforms (store/fallback)', m.get_waveforms, np.array(q), cha)
                require(out.shape == (len(q), nsw, len(chl)), 'get_waveforms shape',
                        key='model-shape', observed=out.shape)
                if all(s in ids for s in q):
                    for i, s in enumerate(q):
                        stored = set(int(c) for c in chans[ids.index(s)] if c != -1)
                        for j, c in enumerate(chl):
                            if c in stored:
                                e = _window(A, samples[s], nsw, [c])[:, 0] * f
                                if not np.array_equal(out[i, :, j], e):
                                    raise Violation('store waveform (spike %d, channel %d) differs '
                                                    'from the raw window x factor' % (s, c),
                                                    key='model-store', observed=out[i, :, j],
                                                    expected=e)
                else:
                    # a request with an unstored spike falls back to the raw data (no factor)
                    info['fallback'] = True
                    e = expect(q, chl)
                    require(np.array_equal(out, e), 'fallback to raw data differs from the window',
                            key='model-fallback', observed=out, expected=e)
        finally:
            m.close()
            if mt is not None:
                try:
                    mt.close()
                except Exception:
                    pass
    return info


def classify(case, info):
    labels = ['model', 'model:raw-' + case['spec']['raw']['backend']]
    if info['store']:
        labels.append('model:store')
    if info['fallback']:
        labels.append('model:fallback')
    return labels, info['store']
