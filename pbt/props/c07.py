# -*- coding: utf-8 -*-
"""C07 - spike-cluster index utilities partition the spikes."""

import itertools

import numpy as np
from hypothesis import strategies as st

from .. import env
from ..core import require, must_return, same_array

env.import_phylib()
from phylib.io.array import (  # noqa: E402
    _spikes_per_cluster, _spikes_in_clusters, _unique, _index_of, _flatten_per_cluster,
    grouped_mean)

ID = 'C07'
LEVEL = 'exploration'
ALPHABET = [0, 1, 3, 7]
DTYPES = ['int32', 'int64', 'uint16', 'uint32']
REQ_POOL = [[], [0], [1, 3], [7, 0], [5], [3, 5, 0], [7, 7, 1], [2, 9],
            [65539, 1], [2 ** 32 + 7], [2 ** 32 + 5, 65536]]     # absent ids beyond the dtype's range
RULE = (
    "(vec) exhaustive: every cluster vector over the gapped alphabet {0,1,3,7} up to length 6 "
    "(quick) / 9 (thorough) x dtypes int32/int64/uint16/uint32; each case exercises "
    "_spikes_per_cluster (with and without a gapped spike-id vector), _spikes_in_clusters for a "
    "fixed pool of requested lists (empty, unknown ids, unsorted, repeated), _unique, _index_of "
    "against unsorted lookups, _flatten_per_cluster, grouped_mean (1-D and 2-D float values, "
    "int16 / uint8 / bool / int64 values). "
    "(rand) Hypothesis: vectors to length 3000 over ids up to 5000 with wide gaps (uint16 "
    "vectors also with ids 32768/65534/65535; one case in six has 30-80 clusters spread over "
    "0..60000 and 20-70 requested ids), signed "
    "vectors with -1 entries for _unique, random requested lists and lookups. "
    "(model) get_cluster_spikes/get_template_spikes/get_template_counts on generated datasets. "
    "Oracle: list comprehensions over enumerate(vector) and Python sets. Non-trivial: >=2 distinct "
    "ids with a gap between them, or an unsigned dtype, or a requested id absent from the vector."
    ' Later additions: ids as Python ints / NumPy integers of every width / 0-d arrays at model l'
    'evel, 40 000 distinct ids, 5 million spikes.')
ASSUMPTIONS = []


def _vec_cases(L):
    for n in range(0, L + 1):
        for v in itertools.product(ALPHABET, repeat=n):
            for dt in DTYPES:
                yield {'k': 'vec', 'v': list(v), 'dt': dt}


@st.composite
def _rand_case(draw):
    n = draw(st.integers(0, 60) | st.integers(0, 3000))
    wide = draw(st.integers(0, 5)) == 0         # many clusters, ids spread over a wide range
    nids = draw(st.integers(1, 12)) if not wide else draw(st.integers(30, 80))
    ids = draw(st.lists(st.integers(0, 5000 if not wide else 60000), min_size=nids,
                        max_size=nids, unique=True))
    dt = draw(st.sampled_from(DTYPES))
    if dt == 'uint16' and draw(st.booleans()):
        # ids at the top of the dtype's range (bincount-sized tables stay small for uint16 only)
        ids = sorted(set(ids[:-1] + [draw(st.sampled_from([65535, 65534, 32768]))]))
        nids = len(ids)
    idx = draw(st.lists(st.integers(0, nids - 1), min_size=n, max_size=n))
    v = [ids[i] for i in idx]
    req = draw(st.lists(st.sampled_from(ids) | st.integers(0, 5001), max_size=6 if not wide else 70,
                        min_size=0 if not wide else 20))
    neg = draw(st.lists(st.integers(0, max(0, n - 1)), max_size=4)) if dt.startswith('int') else []
    lookup_perm = draw(st.permutations(sorted(set(ids))))
    return {'k': 'rand', 'v': v, 'dt': dt, 'req': req, 'neg': neg, 'lookup': list(lookup_perm)}


def _wide_cases(th):
    # tens of thousands of distinct ids (tables of 2**15..2**16 entries and beyond), and vectors
    # of several million spikes
    for i, (nids, n) in enumerate([(40000, 90000), (300, 5000000)] +
                                  ([(65536 + 9, 140000), (33000, 70000), (70000, 150000)]
                                   if th else [])):
        yield {'k': 'wide', 'nids': nids, 'n': n, 'seed': 70 + i}


def _check_wide(case):
    rs = np.random.RandomState(case['seed'])
    nids, n = case['nids'], case['n']
    ids = np.sort(rs.choice(np.arange(3 * nids), size=nids, replace=False))     # gaps
    v = ids[rs.randint(0, nids, size=n)]
    v[:nids] = ids                      # every id occurs
    rs.shuffle(v)
    arr = v.astype(np.int64 if case['seed'] % 2 else np.int32)
    # unique / index-in-lookup against an unsorted lookup
    u = must_return('_unique', _unique, arr)
    same_array('_unique (%d distinct ids)' % nids, u, ids, key='unique', dtype=False)
    lookup = rs.permutation(ids)
    pos = np.empty(3 * nids, dtype=np.int64)
    pos[lookup] = np.arange(nids)
    out = must_return('_index_of', _index_of, arr, lookup)
    same_array('_index_of (%d distinct ids, unsorted lookup)' % nids, out, pos[v],
               key='index_of', dtype=False)
    # grouped mean
    vals = (np.arange(n) % 13) * 0.5
    order = np.argsort(v, kind='stable')
    cuts = np.r_[0, np.nonzero(np.diff(v[order]))[0] + 1, n]
    exp = np.array([vals[order[a:b]].mean() for a, b in zip(cuts[:-1], cuts[1:])])
    gm = must_return('grouped_mean', grouped_mean, vals, arr)
    same_array('grouped_mean (%d distinct ids)' % nids, gm, exp, key='grouped_mean', dtype=False,
               tol=(1e-12, 1e-12))
    # selection of a set of clusters == sorted union of their groups
    req = ids[::max(1, nids // 7)][:9].tolist() + [int(ids[-1]) + 1]
    sel = must_return('_spikes_in_clusters', _spikes_in_clusters, arr, req)
    same_array('_spikes_in_clusters (%d spikes)' % n, sel, np.nonzero(np.isin(v, req))[0],
               key='sic', dtype=False)
    groups = must_return('_spikes_per_cluster', _spikes_per_cluster, arr)
    require(sorted(int(k) for k in groups) == ids.tolist(), '_spikes_per_cluster: keys are not '
            'exactly the ids present', key='spc-keys')
    for c in req[:-1]:
        same_array('_spikes_per_cluster[%d]' % c, groups[c], np.nonzero(v == c)[0],
                   key='spc-group', dtype=False)
    total = sum(len(g) for g in groups.values())
    require(total == n, '_spikes_per_cluster: groups do not partition the spikes',
            key='spc-partition', observed=total, expected=n)


def drivers(tier):
    th = tier == 'thorough'
    ds = [
        dict(kind='enum', name='wide', exhaustive=False,
             bound='40 000 distinct ids; 5 million spikes (thorough: also 33 000 / 65 545 / '
                   '70 000 ids)', cases=lambda: _wide_cases(th)),
        dict(kind='enum', name='vec', exhaustive=True,
             bound='alphabet {0,1,3,7}, length<=%d, 4 dtypes' % (9 if th else 6),
             cases=lambda: _vec_cases(9 if th else 6)),
        dict(kind='hyp', name='rand', strategy=_rand_case(), examples=150000 if th else 10000),
    ]
    try:
        from . import c07_model
        ds.append(dict(kind='hyp', name='model', strategy=c07_model.strategy(),
                       examples=20000 if th else 2000))
    except ImportError:
        pass
    return ds


# ---------------------------------------------------------------------------------------------

def _check_groups(v, arr, spike_ids):
    sid = None if spike_ids is None else np.asarray(spike_ids, dtype=np.int64)
    what = '_spikes_per_cluster' + ('' if sid is None else '(spike_ids)')
    out = must_return(what, _spikes_per_cluster, arr, sid)
    require(isinstance(out, dict), what + ' not a dict', key='spc-type')
    exp = {}
    for i, c in enumerate(v):
        exp.setdefault(c, []).append(i if spike_ids is None else spike_ids[i])
    keys = sorted(int(k) for k in out.keys())
    require(keys == sorted(exp), what + ': keys are not exactly the ids present', key='spc-keys',
            observed=keys, expected=sorted(exp))
    require(len(set(int(k) for k in out.keys())) == len(out), what + ': duplicate keys',
            key='spc-dupkeys')
    seen = []
    for k, val in out.items():
        val = np.asarray(val)
        require(val.tolist() == exp[int(k)], what + ': wrong group for id %d' % int(k),
                key='spc-group', observed=val, expected=exp[int(k)])
        seen.extend(val.tolist())
    allids = list(range(len(v))) if spike_ids is None else list(spike_ids)
    require(sorted(seen) == sorted(allids), what + ': groups do not partition the spikes',
            key='spc-partition', observed=sorted(seen), expected=sorted(allids))
    return out


def _check_common(v, dt, reqs, lookups, neg=()):
    arr = np.array(v, dtype=dt)
    n = len(v)
    present = sorted(set(v))
    # grouping, with and without supplied spike ids
    groups = _check_groups(v, arr, None)
    _check_groups(v, arr, [3 + 2 * i + (i // 3) for i in range(n)])
    # selection
    for req in reqs:
        out = must_return('_spikes_in_clusters', _spikes_in_clusters, arr, req)
        exp = [i for i, c in enumerate(v) if c in set(req)]
        require(np.asarray(out).tolist() == exp, '_spikes_in_clusters != sorted union of groups',
                key='sic', observed=out, expected=exp)
        union = sorted(itertools.chain.from_iterable(
            np.asarray(groups[k]).tolist() for k in groups if int(k) in set(req)))
        require(np.asarray(out).tolist() == union, '_spikes_in_clusters != union of per-cluster groups',
                key='sic-union', observed=out, expected=union)
    # unique
    u = must_return('_unique', _unique, arr)
    require(np.asarray(u).tolist() == present, '_unique != sorted set', key='unique',
            observed=u, expected=present)
    if neg and arr.dtype.kind == 'i' and n:
        a2 = arr.copy()
        a2[list(neg)] = -1
        u2 = must_return('_unique', _unique, a2)
        exp2 = sorted(set(int(x) for x in a2 if x >= 0))
        require(np.asarray(u2).tolist() == exp2, '_unique does not drop negatives', key='unique-neg',
                observed=u2, expected=exp2)
    # index_of
    for lookup in lookups:
        if not set(v) <= set(lookup):
            continue
        out = must_return('_index_of', _index_of, arr, lookup)
        exp = [list(lookup).index(c) for c in v]
        require(np.asarray(out).tolist() == exp, '_index_of != list.index', key='index_of',
                observed=out, expected=exp)
        out2 = must_return('_index_of', _index_of, arr, np.array(lookup, dtype=dt))
        require(np.asarray(out2).tolist() == exp, '_index_of(array lookup) != list.index',
                key='index_of', observed=out2, expected=exp)
    # flatten
    if groups:
        fl = must_return('_flatten_per_cluster', _flatten_per_cluster, groups)
        require(np.asarray(fl).tolist() == list(range(n)) and np.asarray(fl).dtype == np.int64,
                '_flatten_per_cluster != sorted union (int64)', key='flatten', observed=fl)
        sub = {k: groups[k] for k in list(groups)[:1]}
        fl = must_return('_flatten_per_cluster', _flatten_per_cluster, sub)
        exp = sorted(np.asarray(list(sub.values())[0]).tolist())
        require(np.asarray(fl).tolist() == exp, '_flatten_per_cluster(subset) wrong', key='flatten',
                observed=fl, expected=exp)
    # grouped mean
    if n:
        vals = np.array([((i * 7) % 11) * 0.5 - 2 for i in range(n)])
        gm = must_return('grouped_mean', grouped_mean, vals, arr)
        exp = np.array([np.mean([vals[i] for i in range(n) if v[i] == c]) for c in present])
        same_array('grouped_mean', gm, exp, key='grouped_mean', dtype=False, tol=(1e-12, 1e-12))
        # one (not the last) cluster carries values 1e12 times larger than the others
        big = present[0]
        vals3 = np.array([(1e12 if v[i] == big else 1.0) * (1 + (i * 7) % 11) for i in range(n)])
        gm3 = must_return('grouped_mean', grouped_mean, vals3, arr)
        exp3 = np.array([np.mean([vals3[i] for i in range(n) if v[i] == c]) for c in present])
        same_array('grouped_mean (large dynamic range)', gm3, exp3, key='grouped_mean',
                   dtype=False, tol=(1e-9, 0))
        # the quantity may be stored in a narrow type (int16 samples, uint8 labels, booleans);
        # the mean is the mathematical mean whatever the type of the values
        for vdt, mk in (('int16', lambda i: 30000 - (i * 7) % 11), ('uint8', lambda i: 250 - i % 3),
                        ('bool', lambda i: bool((i * 5) % 3)), ('int64', lambda i: i * i - 40)):
            vi = [mk(i) for i in range(n)]
            gmi = must_return('grouped_mean', grouped_mean, np.array(vi, dtype=vdt), arr)
            expi = np.array([sum(int(vi[i]) for i in range(n) if v[i] == c) / v.count(c)
                             for c in present])
            same_array('grouped_mean (%s values)' % vdt, gmi, expi, key='grouped_mean',
                       dtype=False, tol=(1e-12, 1e-12))
        vals2 = np.c_[vals, vals[::-1] * 3]
        gm2 = must_return('grouped_mean', grouped_mean, vals2, arr)
        exp2 = np.array([np.mean([vals2[i] for i in range(n) if v[i] == c], axis=0) for c in present])
        same_array('grouped_mean(2-D)', gm2, exp2, key='grouped_mean', dtype=False,
                   tol=(1e-12, 1e-12))


def check(case):
    k = case['k']
    if k == 'vec':
        v = case['v']
        lookups = [[7, 3, 1, 0], [0, 1, 3, 7], [3, 9, 0, 7, 1]] + \
            ([sorted(set(v), reverse=True)] if v else [])
        _check_common(v, case['dt'], REQ_POOL, lookups)
    elif k == 'rand':
        _check_common(case['v'], case['dt'], [case['req'], []], [case['lookup']], case['neg'])
    elif k == 'wide':
        _check_wide(case)
    elif k == 'model':
        from . import c07_model
        return c07_model.check(case)
    else:
        raise ValueError(k)


def classify(case, info):
    k = case['k']
    if k == 'model':
        from . import c07_model
        return c07_model.classify(case, info)
    if k == 'wide':
        return ['wide:%d-ids-%d-spikes' % (case['nids'], case['n'])], True
    v = case['v']
    labels = [k, 'dt:' + case['dt'], 'len:%s' % ('0' if not v else '1-8' if len(v) <= 8 else '9+')]
    present = sorted(set(v))
    nt = False
    if len(present) >= 2 and any(b - a > 1 for a, b in zip(present, present[1:])):
        labels.append('gap')
        nt = True
    if case['dt'].startswith('u') and v:
        labels.append('unsigned')
        nt = True
    reqs = REQ_POOL if k == 'vec' else [case['req']]
    if v and any(r not in present for req in reqs for r in req):
        labels.append('absent-request')
        nt = True
    if k == 'rand' and case['neg']:
        labels.append('negatives')
    return labels, nt
