# -*- coding: utf-8 -*-
"""C14 - exported ALF values equal the physical quantities they name."""

from math import ceil
from pathlib import Path

import numpy as np
from hypothesis import strategies as st

from .. import env, core, datasets as D, merging as G, oracles as O
from ..core import require, must_return, same_array, Violation

env.import_phylib()
from phylib.io.alf import EphysAlfCreator  # noqa: E402
from phylib.io.model import TemplateModel, get_template_params  # noqa: E402

ID = 'C14'
LEVEL = 'exploration'
RULE = (
    "Hypothesis: (single) dense datasets as in C13 (raw or not, features or not, curated with and "
    "without emptied ids, unused template ids anywhere, whitening or not, generic/grid/column "
    "geometries with distance ties, 2-10 channels) and (merged) datasets produced by the real "
    "Merger from 1..4 generated probes (k>=3 in about 40%) with permuted channel maps; the "
    "neighbourhood size (2..12, at most the smallest probe's channel count for merged data) is set "
    "on a TemplateModel subclass; unit factors {1, 2, 2.5, 1e-6}. Oracle from the source files "
    "(np.load): templates.waveforms[t][:, j] ~ (W[t] @ wmi)[:, ch[t][j]] * mean_amp[t]/au[t] * f "
    "(NaN rows for ids without spikes); ch[t] = a peak channel first, then an admissible "
    "k-nearest set on the peak's probe (tie groups at the cut are don't-care; admissible under L1 "
    "or L2 distance); same for clusters on the cluster waveforms; spikes.amps / templates.amps / "
    "clusters.amps = au*A*f and per-id means (NaN without spikes); clusters.channels = a maximiser "
    "of ptp; clusters.depths = y of that channel (NaN for emptied ids of curated data; ids "
    "without spikes of un-curated data are don't-care); spikes.depths = feature-weighted depth "
    "(features) or cluster depth (no features) as float32; clusters.peakToTrough = (argmax-argmin "
    "on the peak channel)/rate*1e3 with NaN for emptied ids; channels.rawInd cut per probe == "
    "each probe's original channel map. Single datasets are, in half of the cases, curated again, "
    "reloaded and exported a second time into the same directory (force=True) and verified again. "
    "One hand-made curated dataset has 300 templates with uint16 ids (thorough: also 257). "
    "Non-trivial: merged with >=3 probes, or a distance tie at "
    "the cut, or factor != 1, or an emptied cluster id."
    ' Later additions: accessor results edited in place before the export, probe-wise inverse whi'
    'tening for merged data, templates zero outside a footprint, 1001 templates, a curated whiten'
    'ed 40-channel probe.')
ASSUMPTIONS = ['pc-feature stores that hold all spikes', 'float32 storage: rtol 1e-4',
               'merge inputs as in C11/C12']


@st.composite
def _case(draw):
    kind = draw(st.sampled_from(['single', 'single', 'merged']))
    factor = draw(st.sampled_from([1, 2, 2.5, 1e-6]))
    if kind == 'single':
        spec = draw(D.dataset_spec(dense=True, naming='ks', amplitudes=True,
                                   full_feature_rows=True, max_nc=10, clusters_file=True,
                                   int_templates=False, footprints=True))
        if spec['raw'] and spec['raw']['backend'] == 'cbin':
            spec['raw']['chunk'] = max(spec['raw']['chunk'], int(ceil(spec['n_raw'] / 18.0)))
        return {'k': 'single', 'spec': spec, 'factor': factor, 'ncc': draw(st.integers(2, 12)),
                'second_factor': draw(st.sampled_from([None, None, 1, 2.34375e-06, 3])),
                'reexport': draw(st.none() | st.lists(D._curation_op, min_size=1, max_size=3)),
                'edit_before': draw(st.booleans())}
    mc = draw(G.merge_case(exclude_f13=True))
    for p in mc['probes']:
        p['templates']['int'] = False
    ncc = draw(st.integers(2, min(p['nc'] for p in mc['probes'])))
    return {'k': 'merged', 'probes': mc['probes'], 'factor': factor, 'ncc': ncc,
            'edit_before': draw(st.booleans())}


def _large_cases(th):
    yield {'k': 'single', 'spec': D.large_curated_spec(), 'factor': 2.5, 'ncc': 3, 'large': True}
    # 1001 templates (one more than a round block size); a curated probe with more channels than
    # the neighbourhood size, whitened
    yield {'k': 'single', 'spec': D.large_curated_spec(nt=1001, ns=3100, seed=14), 'factor': 2,
           'ncc': 4, 'large': True}
    mc = D.many_channels_spec(40, nt=5, ns=120, seed=15)
    mc['curation'] = [{'op': 'merge', 'a': 0, 'b': 1}, {'op': 'split', 'a': 1, 'cut': 3,
                                                         'interleave': True}]
    yield {'k': 'single', 'spec': mc, 'factor': 1, 'ncc': 12, 'large': True}
    # spike depths across the 50 000-spike batches of get_depths
    yield {'k': 'single', 'spec': D.large_spec(50001, seed=8), 'factor': 1, 'ncc': 4, 'large': True}
    if th:
        yield {'k': 'single', 'spec': D.large_spec(100003, seed=9), 'factor': 2, 'ncc': 4,
               'large': True}
    if th:
        yield {'k': 'single', 'spec': D.large_curated_spec(nt=257, ns=1200, seed=11), 'factor': 1,
               'ncc': 4, 'large': True}


def drivers(tier):
    th = tier == 'thorough'
    return [dict(kind='hyp', name='exports', strategy=_case(), examples=50000 if th else 6000),
            dict(kind='enum', name='large', exhaustive=False, bound='300 (thorough: also 257) '
                 'templates with uint16 ids, merges involving high ids',
                 cases=lambda: _large_cases(th))]


# ---------------------------------------------------------------------------------------------

def _load(d, name):
    p = Path(d) / name
    return np.load(p).squeeze() if p.exists() else None


class Source(object):
    """Truth read from the (KS-named) source directory with plain np.load."""

    def __init__(self, d, rate):
        self.samples = _load(d, 'spike_times.npy')
        self.st = _load(d, 'spike_templates.npy').astype(np.int64)
        sc = _load(d, 'spike_clusters.npy')
        self.sc = (sc if sc is not None else self.st).astype(np.int64)
        self.A = _load(d, 'amplitudes.npy').astype(np.float64)
        self.W = np.load(Path(d) / 'templates.npy').astype(np.float64)
        self.pos = np.load(Path(d) / 'channel_positions.npy').astype(np.float64)
        self.chmap = _load(d, 'channel_map.npy').astype(np.int64)
        nc = self.pos.shape[0]
        pr = _load(d, 'channel_probe.npy')
        self.probe = pr.astype(np.int64) if pr is not None else np.zeros(nc, dtype=np.int64)
        wm = _load(d, 'whitening_mat.npy')
        wmi = _load(d, 'whitening_mat_inv.npy')
        self.wmi = wmi if wmi is not None else (np.linalg.inv(wm) if wm is not None else np.eye(nc))
        self.pcf = np.load(Path(d) / 'pc_features.npy') if (Path(d) / 'pc_features.npy').exists() \
            else None
        self.pcf_ind = _load(d, 'pc_feature_ind.npy')
        self.rate = rate
        self.curated = not np.array_equal(self.st, self.sc)


def nearest_ok(S, listed, k):
    """listed[0] is taken as the peak; is the set an admissible k-nearest same-probe set?"""
    p = int(listed[0])
    P = np.nonzero(S.probe == S.probe[p])[0]
    if len(set(int(x) for x in listed)) != len(listed) or len(listed) != k:
        return False, False
    if len(P) < k:
        return set(P.tolist()) <= set(int(x) for x in listed), False
    if not set(int(x) for x in listed) <= set(P.tolist()):
        return False, False
    tie_seen = False
    for metric in ('l1', 'l2'):
        diff = S.pos[P] - S.pos[p]
        d = np.abs(diff).sum(axis=1) if metric == 'l1' else (diff ** 2).sum(axis=1)
        dk = np.sort(d)[k - 1]
        closer = set(P[d < dk].tolist())
        tie = set(P[d == dk].tolist())
        if len(closer) + len(tie) > k:
            tie_seen = True
        L = set(int(x) for x in listed)
        if closer <= L <= (closer | tie):
            return True, tie_seen
    return False, tie_seen


def check_waveform_object(S, Wset, ids, wf, chs, f, ncw, what, empty_required, info):
    """templates.* or clusters.* waveforms / waveformsChannels against the formulas."""
    n = Wset.shape[0]
    require(wf.shape == (n, Wset.shape[1], ncw) and chs.shape == (n, ncw), what + ' shapes',
            key='wf-shape', observed=(wf.shape, chs.shape), expected=(n, Wset.shape[1], ncw))
    present = set(int(x) for x in ids)
    au = np.array([np.max(O.ptp(Wset[k] @ S.wmi, axis=0)) for k in range(n)])
    for k in range(n):
        listed = chs[k]
        if k not in present:
            require(np.all(np.isnan(wf[k])), what + '[%d]: waveform of an id without spikes is '
                    'not NaN' % k, key='wf-nan', observed=wf[k])
            continue
        a = O.ptp(Wset[k], axis=0)
        require(a[int(listed[0])] >= a.max() - 1e-9 * max(a.max(), 1e-30),
                what + '[%d]: first listed channel is not the peak channel' % k,
                key='wf-peak-first', observed=listed, expected=int(np.argmax(a)))
        ok, tie = nearest_ok(S, listed, ncw)
        if tie:
            info['tie'] = True
        require(ok, what + '[%d]: listed channels are not the nearest channels on the peak\'s '
                'probe' % k, key='wf-nearest', observed=listed)
        mean = np.mean([au[k] * S.A[i] for i in range(len(ids)) if int(ids[i]) == k])
        exp = (Wset[k] @ S.wmi)[:, listed.astype(np.int64)] * (mean / au[k]) * f
        scale = float(np.max(np.abs(exp))) or 1.0
        require(np.allclose(wf[k], exp, rtol=1e-4, atol=1e-5 * scale),
                what + '[%d] is not the unwhitened, amplitude-rescaled waveform on the listed '
                'channels' % k, key='wf-values', observed=wf[k], expected=exp)


def check_cluster_waveforms(S, CW, ncc, shanks, info):
    """The cluster waveforms that get exported, recomputed from the source files (the weighted
    mean of C08) wherever the channel lists involved are unambiguous."""
    from .c08 import expected_cluster_mean
    from phylib.utils import Bunch
    T = Bunch(spike_templates=S.st, spike_clusters=S.sc, templates=S.W, pos=S.pos, shanks=shanks)
    scale = float(np.max(np.abs(S.W))) or 1.0
    for c in sorted(set(int(x) for x in S.sc)):
        ts = sorted(set(int(t) for t, cc in zip(S.st, S.sc) if int(cc) == c))
        if len(ts) == 1:
            exp = [(None, S.W[ts[0]])]
        else:
            exp = expected_cluster_mean(T, c, S.wmi, ncc, False)
            if exp is None:
                continue
            info['multi_checked'] = True
        require(any(np.allclose(CW[c], full, rtol=1e-5, atol=1e-6 * scale) for _, full in exp),
                'waveform of cluster %d (input of the exported cluster tables) is not its '
                'template / the count-weighted mean of its templates' % c,
                key='cluster-waveform-input', observed=CW[c], expected=exp[0][1])


def check_export(S, m, out, f, ncc, chmaps, info, shanks=False):
    nt = S.W.shape[0]
    nc = S.pos.shape[0]
    ncw = min(ncc, nc)
    ns = len(S.st)
    CW = np.asarray(m.sparse_clusters.data, dtype=np.float64)     # cluster waveforms (C08)
    n_clusters = CW.shape[0]
    if shanks is not False and S.curated:
        check_cluster_waveforms(S, CW, ncc, shanks, info)
    L = lambda name: np.load(out / name)  # noqa: E731
    # templates
    check_waveform_object(S, S.W, S.st, L('templates.waveforms.npy'),
                          L('templates.waveformsChannels.npy'), f, ncw, 'templates.waveforms',
                          True, info)
    check_waveform_object(S, CW, S.sc, L('clusters.waveforms.npy'),
                          L('clusters.waveformsChannels.npy'), f, ncw, 'clusters.waveforms',
                          True, info)
    # amplitudes
    au_t = np.array([np.max(O.ptp(S.W[k] @ S.wmi, axis=0)) for k in range(nt)])
    au_c = np.array([np.max(O.ptp(CW[k] @ S.wmi, axis=0)) for k in range(n_clusters)])
    exp_sa = au_t[S.st] * S.A * f
    same_array('spikes.amps', L('spikes.amps.npy'), exp_sa.astype(np.float32), key='spikes-amps',
               tol=(1e-5, 0))
    for name, au, ids, n in (('templates.amps.npy', au_t, S.st, nt),
                             ('clusters.amps.npy', au_c, S.sc, n_clusters)):
        exp = np.full(n, np.nan)
        for k in range(n):
            mine = [au[k] * S.A[i] for i in range(ns) if int(ids[i]) == k]
            if mine:
                exp[k] = np.mean(mine) * f
        same_array(name, L(name), exp, key='mean-amps', dtype=False, tol=(1e-5, 0))
    # peak channels, depths, durations
    cch = L('clusters.channels.npy')
    cdep = L('clusters.depths.npy')
    cdur = L('clusters.peakToTrough.npy')
    require(cch.shape == (n_clusters,) and cdep.shape == (n_clusters,) and
            cdur.shape == (n_clusters,), 'cluster table lengths', key='cluster-tables',
            observed=(cch.shape, cdep.shape, cdur.shape), expected=n_clusters)
    present = set(int(x) for x in S.sc)
    exp_cdep = np.full(n_clusters, np.nan)
    for k in range(n_clusters):
        a = O.ptp(CW[k], axis=0)
        if k in present:
            require(a[int(cch[k])] >= a.max() - 1e-9 * max(a.max(), 1e-30),
                    'clusters.channels[%d] is not the peak channel' % k, key='cluster-peak',
                    observed=int(cch[k]))
            exp_cdep[k] = S.pos[int(cch[k]), 1]
            require(cdep[k] == exp_cdep[k], 'clusters.depths[%d] is not the depth of the peak '
                    'channel' % k, key='cluster-depths', observed=cdep[k], expected=exp_cdep[k])
            cands = [c for c in range(nc) if a[c] >= a.max() - 1e-9 * max(a.max(), 1e-30)]
            exps = [(int(np.argmax(CW[k][:, c])) - int(np.argmin(CW[k][:, c]))) / S.rate * 1e3
                    for c in cands]
            require(any(abs(cdur[k] - e) <= 1e-9 * max(1.0, abs(e)) for e in exps),
                    'clusters.peakToTrough[%d] is not the peak-to-trough time in ms' % k,
                    key='cluster-durations', observed=cdur[k], expected=exps)
        elif S.curated:
            info['emptied'] = True
            require(np.isnan(cdep[k]), 'clusters.depths[%d]: id without spikes is not NaN' % k,
                    key='cluster-depths-nan', observed=cdep[k])
            require(np.isnan(cdur[k]), 'clusters.peakToTrough[%d]: id without spikes is not NaN'
                    % k, key='cluster-durations-nan', observed=cdur[k])
    # spike depths
    sdep = L('spikes.depths.npy')
    require(sdep.dtype == np.float32 and sdep.shape == (ns,), 'spikes.depths dtype/shape',
            key='spike-depths-type', observed=(sdep.dtype, sdep.shape))
    if S.pcf is None:
        exp = exp_cdep[S.sc]
    else:
        exp = np.zeros(ns)
        for s in range(ns):
            num = den = 0.0
            for k in range(S.pcf.shape[2]):
                w = max(float(S.pcf[s, 0, k]), 0.0) ** 2
                num += S.pos[int(S.pcf_ind[S.st[s], k]), 1] * w
                den += w
            exp[s] = num / den if den > 0 else np.nan
    same_array('spikes.depths', sdep, exp.astype(np.float32), key='spike-depths', tol=(1e-5, 1e-6))
    # raw indices per probe
    raw = L('channels.rawInd.npy')
    exp_raw = np.concatenate(chmaps)
    same_array('channels.rawInd (each probe\'s original channel map)', raw.astype(np.int64),
               exp_raw.astype(np.int64), key='rawind')


def load_with_ncc(params_path, ncc):
    class Model(TemplateModel):
        n_closest_channels = ncc
    return must_return('TemplateModel()', lambda: Model(**get_template_params(params_path)))


def check(case):
    # (see C13: spike depths of spikes without a positive feature part need the default error state)
    feats = case['k'] == 'merged' or bool(case['spec']['pcf'])
    with core.without(*(('fp', 'warn') if feats else ())):
        return _check(case)


def _check(case):
    info = {}
    f = case['factor']
    with env.scratch() as d:
        if case['k'] == 'single':
            T = D.build(case['spec'], d / 'src')
            src = T.dir
            chmaps = [T.chmap]
            rate = T.rate
            shanks = T.shanks
        else:
            Ts = G.build_probes({'probes': case['probes']}, d)
            src = d / 'merged'
            merger, mm = G.run_merge(Ts, src, must_return)
            try:
                mm.close()
            except Exception:
                pass
            chmaps = [T.chmap for T in Ts]
            rate = Ts[0].rate
            shanks = False      # (merged data: the cluster waveforms are taken from the model)
            # un-whitening of merged data is probe by probe: the inverse of each probe's own
            # whitening matrix (its file if it has one), whatever the merger wrote
            from .c12 import _blockdiag
            # (only when every probe has a whitening matrix: otherwise the merged dataset has none)
            true_wmi = _blockdiag([np.asarray(D.wmi_of(T), dtype=np.float64) for T in Ts]) \
                if all(T.wm is not None for T in Ts) else None
        m = load_with_ncc(src / 'params.py', case['ncc'])
        mt = getattr(getattr(m, 'traces', None), 'reader', None)
        om = None
        try:
            S = Source(src, rate)
            if case['k'] == 'merged' and true_wmi is not None:
                S.wmi = true_wmi
            # what the model handed out earlier is the caller's: sorting / rescaling it in place
            # must not change what is exported afterwards
            if case.get('edit_before'):
                for name in ('clusters_channels', 'templates_channels', 'templates_amplitudes',
                             'clusters_amplitudes', 'templates_waveforms_durations'):
                    core.scribble(must_return(name, lambda: getattr(m, name)))
                with core.without('fp', 'warn'):
                    core.scribble(must_return('get_depths', m.get_depths))
                core.scribble(list(must_return('get_amplitudes_true', m.get_amplitudes_true)))
                info['edited_before'] = True
            np.random.seed(12345)
            creator = must_return('EphysAlfCreator()', EphysAlfCreator, m)
            out = d / 'alf'
            om = must_return('convert', creator.convert, out, ampfactor=f)
            check_export(S, m, out, f, case['ncc'], chmaps, info, shanks)
            if case.get('second_factor') is not None:
                # the same converter object converts again, into another directory, with another
                # unit factor
                f2 = case['second_factor']
                out2 = d / 'alf_second'
                om2 = must_return('convert (second, same converter)', creator.convert, out2,
                                  ampfactor=f2)
                try:
                    check_export(S, m, out2, f2, case['ncc'], chmaps, info, shanks)
                finally:
                    try:
                        om2.close()
                    except Exception:
                        pass
            if case.get('reexport'):
                # history: curate again, reload, export again into the same directory (force)
                new = D.apply_curation([int(x) for x in S.sc], case['reexport'])
                must_return('save_spike_clusters', m.save_spike_clusters,
                            np.array(new, dtype=np.int32))
                for x in (m, om):
                    try:
                        x.close()
                    except Exception:
                        pass
                om = None
                m = load_with_ncc(src / 'params.py', case['ncc'])
                S = Source(src, rate)
                creator = must_return('EphysAlfCreator()', EphysAlfCreator, m)
                om = must_return('convert (again, same directory, force)', creator.convert, out,
                                 force=True, ampfactor=f)
                check_export(S, m, out, f, case['ncc'], chmaps, info, shanks)
                info['reexported'] = True
        finally:
            for x in (m, om):
                try:
                    if x is not None:
                        x.close()
                except Exception:
                    pass
            if mt is not None:
                try:
                    mt.close()
                except Exception:
                    pass
    return info


def classify(case, info):
    labels = (['large:uint16-template-ids'] if case.get('large') else []) + [
        case['k'], 'factor:%r' % case['factor'], 'ncc:%s' % ('<=4' if case['ncc'] <= 4 else '>4')]
    nt = False
    if case['k'] == 'merged':
        labels.append('probes:%d' % len(case['probes']))
        if len(case['probes']) >= 3:
            nt = True
    else:
        s = case['spec']
        if s['curation']:
            labels.append('curated')
        if s['pcf']:
            labels.append('features')
        if s['raw']:
            labels.append('raw')
    if info.get('tie'):
        labels.append('distance-tie-at-cut')
        nt = True
    if case['factor'] not in (1, 1.0):
        nt = True
    if info.get('emptied'):
        labels.append('emptied-cluster-id')
        nt = True
    if info.get('reexported'):
        labels.append('re-export-into-same-directory')
    if info.get('edited_before'):
        labels.append('accessor-results-edited-in-place-before-export')
    if info.get('multi_checked'):
        labels.append('multi-template-cluster-waveform-recomputed')
    if case['k'] == 'single' and case['spec']['templates'].get('footprint'):
        labels.append('templates-zero-outside-footprint')
    return labels, nt
