# -*- coding: utf-8 -*-
"""C08 - curated clusters get the right template provenance and waveforms."""

import numpy as np
from hypothesis import strategies as st

from .. import env, core, datasets as D, oracles as O
from ..core import require, must_return, same_array, Violation

env.import_phylib()
from phylib.io.model import TemplateModel, get_template_params  # noqa: E402

ID = 'C08'
LEVEL = 'exploration'
RULE = (
    "Hypothesis dense datasets (2-16 channels, continuous template values, generic/grid/column "
    "geometries, shanks, with and without whitening) whose (spike_templates, spike_clusters) pair "
    "comes from a generated curation history of up to 6 operations over {merge two ids, split an "
    "id at a prefix or interleaved subset, reassign one spike to an existing or new id, skip "
    "ids}; plus un-curated datasets with unused template ids anywhere including the highest. "
    "The neighbourhood size (2..12) is set on a TemplateModel subclass so that it is in force "
    "while the cluster waveforms are computed at load time. Oracle: merge_map[c] = sorted set of "
    "templates of the spikes of c for every c in 0..max; nan_idx = ids with no spikes; n_clusters "
    "= max+1 rows; single-template cluster == that template's stored waveform; multi-template "
    "cluster == on the dominant template's channel list (any count-tied template admitted) the "
    "count-weighted mean of each template's channel-restricted waveform, zero elsewhere (channel "
    "lists recomputed with the C05 oracle; clusters involving a template whose list is ambiguous "
    "within tolerance are skipped and counted); get_cluster_mean_waveforms(c) for both unwhiten "
    "values; un-curated: empty map, no empty ids, cluster waveforms are the template array, "
    "n_clusters == n_templates. One hand-made dataset has 300 templates with uint16 ids and merges "
    "of high template ids (thorough: also 257 and 700 templates). Non-trivial: a merge of >=2 templates with unequal counts, or an "
    "emptied id, or a count tie, or (un-curated) the highest template id unused."
    ' Later additions: templates exactly zero outside a footprint, symlinked files, results of ge'
    't_template / get_cluster_mean_waveforms edited in place then queried again, in-place edits o'
    'f spike_clusters on a dataset that was not curated before, one stray spike among 120 000, on'
    'e cluster of 280 templates.')
ASSUMPTIONS = ['float tolerance rtol 1e-5 for weighted means']


@st.composite
def _case(draw):
    cur = draw(st.sampled_from([True, True, True, False]))
    spec = draw(D.dataset_spec(dense=True, raw=False, features=False, tfeatures=False,
                               naming='ks', curated=cur, max_nc=16, int_templates=False,
                               amplitudes=True, footprints=True, symlinks=True))
    ns = spec['ns']
    edits = draw(st.lists(st.tuples(st.integers(0, ns - 1), st.integers(0, 14)), max_size=4))
    return {'spec': spec, 'ncc': draw(st.integers(2, 12)), 'edits': [list(e) for e in edits]}


def _large_cases(th):
    yield {'spec': D.large_curated_spec(), 'ncc': 3, 'large': True}
    # one cluster stemming from 280 templates with uneven spike counts
    yield {'spec': D.big_merge_spec(), 'ncc': 16, 'large': True, 'bigmerge': 280}
    if th:
        yield {'spec': D.big_merge_spec(nt=600, merged=513, ns=4000, seed=8), 'ncc': 16,
               'large': True, 'bigmerge': 513}
    # a single stray spike of another template among 120 000 (thorough: up to 10**6)
    for n in [120000] + ([100001, 10 ** 6] if th else []):
        yield {'spec': D.stray_spike_spec(n), 'ncc': 12, 'large': True, 'stray': n}
    if th:
        yield {'spec': D.large_curated_spec(nt=257, ns=1200, seed=11), 'ncc': 12, 'large': True}
        yield {'spec': D.large_curated_spec(nt=700, ns=2500, seed=12), 'ncc': 2, 'large': True}


def drivers(tier):
    th = tier == 'thorough'
    return [dict(kind='hyp', name='curated', strategy=_case(), examples=120000 if th else 10000),
            dict(kind='enum', name='large', exhaustive=False, bound='300 (thorough: also 257, 700) '
                 'templates with uint16 ids, merges involving high ids',
                 cases=lambda: _large_cases(th))]


def load_with_ncc(T, ncc):
    class Model(TemplateModel):
        n_closest_channels = ncc
    return must_return('TemplateModel()', lambda: Model(**get_template_params(T.params_path)))


def channel_list(T, t, wmi, ncc, unwhiten):
    """Channel set of template t's record (threshold 0), or None if ambiguous."""
    U = O.unwhitened(T, t, wmi, unwhiten)
    o = O.DenseRecord(U, T.pos, T.shanks, ncc, 0)
    if len(o.peaks) != 1:
        return None, U
    must, may, tie, slots = o.sets_for_peak(o.peaks[0])
    if must != may:
        return None, U
    return sorted(must), U


def expected_cluster_mean(T, c, wmi, ncc, unwhiten):
    """(list of admissible (channels, waveform on all channels)) or None if ambiguous."""
    ids = [i for i, x in enumerate(T.spike_clusters) if int(x) == c]
    doms, counts = O.dominant_templates(T.spike_templates, ids)
    lists = {}
    Us = {}
    for t in counts:
        lists[t], Us[t] = channel_list(T, t, wmi, ncc, unwhiten)
        if lists[t] is None:
            return None
    total = float(sum(counts.values()))
    nsw, nc = Us[doms[0]].shape
    out = []
    for dom in doms:
        full = np.zeros((nsw, nc))
        for ch in lists[dom]:
            acc = np.zeros(nsw)
            for t, n in counts.items():
                if ch in lists[t]:
                    acc += n * Us[t][:, ch]
            full[:, ch] = acc / total
        out.append((lists[dom], full))
    return out


def check(case):
    spec = case['spec']
    ncc = case['ncc']
    info = {'merge_unequal': False, 'emptied': False, 'tie': False, 'top_unused': False,
            'ambiguous': 0, 'checked_multi': 0}
    with env.scratch() as d:
        T = D.build(spec, d / 'ds')
        m = load_with_ncc(T, ncc)
        try:
            nt = spec['nt']
            st_, sc = [int(x) for x in T.spike_templates], [int(x) for x in T.spike_clusters]
            wmi = D.wmi_of(T)
            if not T.curated:
                require(dict(m.merge_map) == {}, 'un-curated: merge_map not empty', key='unc-map',
                        observed=m.merge_map)
                require(len(m.nan_idx) == 0, 'un-curated: nan_idx not empty', key='unc-nan',
                        observed=m.nan_idx)
                same_array('un-curated: cluster waveforms are the template waveforms',
                           np.asarray(m.sparse_clusters.data), T.templates, key='unc-waveforms')
                if max(st_) < nt - 1:
                    info['top_unused'] = True
                require(int(m.n_clusters) == nt, 'un-curated: n_clusters != n_templates',
                        key='unc-n-clusters', observed=int(m.n_clusters), expected=nt)
                # manual clustering starts here: the in-memory assignment is edited in place and
                # the map computed afterwards describes the edited vector (templates untouched)
                if case.get('edits'):
                    sc2 = list(sc)
                    for i, c in case['edits']:
                        m.spike_clusters[i] = c
                        sc2[i] = c
                    mp, nan2 = must_return('get_merge_map (after in-place edit)', m.get_merge_map)
                    exp2 = {c: sorted(set(t for t, cc in zip(st_, sc2) if cc == c))
                            for c in range(max(sc2) + 1)}
                    got2 = {int(k): sorted(int(x) for x in v) for k, v in mp.items()}
                    require(got2 == exp2, 'merge map after an in-place edit of spike_clusters '
                            '(dataset that was not curated before)', key='merge-map-after-edit',
                            observed=got2, expected=exp2)
                    same_array('spike_templates after an in-place edit of spike_clusters',
                               m.spike_templates, T.spike_templates, key='templates-after-edit')
                    info['edited'] = True
                return info
            cmax = max(sc)
            exp_map = {c: sorted(set(t for t, cc in zip(st_, sc) if cc == c))
                       for c in range(cmax + 1)}
            got_map = {int(k): sorted(int(x) for x in v) for k, v in m.merge_map.items()}
            require(got_map == exp_map, 'merge_map is not cluster -> set of source templates',
                    key='merge-map', observed=got_map, expected=exp_map)
            exp_nan = [c for c, v in exp_map.items() if not v]
            got_nan = sorted(int(x) for x in np.asarray(m.nan_idx).tolist())
            require(got_nan == exp_nan, 'nan_idx is not the ids without spikes', key='nan-idx',
                    observed=got_nan, expected=exp_nan)
            if exp_nan:
                info['emptied'] = True
            require(int(m.n_clusters) == cmax + 1, 'n_clusters != max id + 1', key='n-clusters',
                    observed=int(m.n_clusters), expected=cmax + 1)
            data = np.asarray(m.sparse_clusters.data)
            require(data.shape == (cmax + 1,) + T.templates.shape[1:], 'cluster waveform array '
                    'shape', key='cluster-shape', observed=data.shape,
                    expected=(cmax + 1,) + T.templates.shape[1:])
            require(m.sparse_clusters.cols is None, 'cluster waveforms not dense', key='cluster-cols')
            scale = float(np.max(np.abs(T.templates))) or 1.0
            for c, ts in exp_map.items():
                if len(ts) == 0:
                    continue
                if len(ts) == 1:
                    same_array('single-template cluster %d carries template %d unchanged' %
                               (c, ts[0]), data[c], T.templates[ts[0]], key='single-template',
                               dtype=False)
                    continue
                ids = [i for i, x in enumerate(sc) if x == c]
                doms, counts = O.dominant_templates(T.spike_templates, ids)
                if len(doms) > 1:
                    info['tie'] = True
                if len(set(counts.values())) > 1:
                    info['merge_unequal'] = True
                for unwhiten, what in ((False, 'sparse_clusters.data[%d]' % c),
                                       (False, 'get_cluster_mean_waveforms(%d, unwhiten=False)' % c),
                                       (True, 'get_cluster_mean_waveforms(%d, unwhiten=True)' % c)):
                    exp = expected_cluster_mean(T, c, wmi, ncc, unwhiten)
                    if exp is None:
                        info['ambiguous'] += 1
                        continue
                    if what.startswith('sparse'):
                        ok = any(np.allclose(data[c], full, rtol=1e-5, atol=1e-6 * scale)
                                 for _, full in exp)
                        require(ok, what + ' is not the count-weighted mean on the dominant '
                                'template\'s channels (zero elsewhere)', key='cluster-mean',
                                observed=data[c], expected=exp[0][1])
                        info['checked_multi'] += 1
                    else:
                        for attempt in (0, 1):
                            b = must_return(what, m.get_cluster_mean_waveforms, c,
                                            unwhiten=unwhiten)
                            chs = [int(x) for x in b.channel_ids]
                            ok = False
                            for lst, full in exp:
                                if sorted(chs) == lst and np.allclose(
                                        b.mean_waveforms, full[:, chs], rtol=1e-5,
                                        atol=1e-5 * max(scale, float(np.max(np.abs(full))))):
                                    ok = True
                            require(ok, what + ' differs from the weighted-mean formula' +
                                    (' (second call, after the caller edited earlier results in '
                                     'place)' if attempt else ''),
                                    key='mean-waveforms', observed=(chs, b.mean_waveforms),
                                    expected=(exp[0][0], exp[0][1][:, exp[0][0]]))
                            if attempt == 0:
                                # the caller owns what it was given: it sorts / rescales it
                                edited = core.scribble([b.channel_ids, b.mean_waveforms])
                                for t in ts:
                                    r = must_return('get_template', m.get_template, t,
                                                    unwhiten=unwhiten)
                                    edited = core.scribble([r.template, r.channel_ids,
                                                            r.amplitude]) or edited
                                if not edited:
                                    break
                                info['edited_results'] = True
            # the in-memory spike_clusters may be edited during manual clustering: the map computed
            # afterwards describes the edited vector
            if case.get('edits'):
                sc2 = list(sc)
                for i, c in case['edits']:
                    m.spike_clusters[i] = c
                    sc2[i] = c
                mp, nan2 = must_return('get_merge_map (after in-place edit)', m.get_merge_map)
                exp2 = {c: sorted(set(t for t, cc in zip(st_, sc2) if cc == c))
                        for c in range(max(sc2) + 1)}
                got2 = {int(k): sorted(int(x) for x in v) for k, v in mp.items()}
                require(got2 == exp2, 'merge map after an in-place edit of spike_clusters',
                        key='merge-map-after-edit', observed=got2, expected=exp2)
                require(sorted(int(x) for x in np.asarray(nan2).tolist()) ==
                        [c for c, v in exp2.items() if not v],
                        'empty ids after an in-place edit of spike_clusters', key='nan-idx-after-edit',
                        observed=nan2, expected=[c for c, v in exp2.items() if not v])
                info['edited'] = True
        finally:
            m.close()
    return info


def classify(case, info):
    s = case['spec']
    labels = (['large:%d-templates-uint16' % s['nt']] if case.get('large') and not case.get('stray')
              else []) + (['one-stray-spike-in-%d' % case['stray']] if case.get('stray') else []) + (
                  ['cluster-of-%d-templates' % case['bigmerge']] if case.get('bigmerge') else []) + [
        'curated' if s['curation'] else 'un-curated', 'ncc:%s' % ('<=4' if case['ncc'] <= 4
                                                                         else '>4')]
    nt = False
    for k, lab in (('merge_unequal', 'merge-unequal-counts'), ('emptied', 'emptied-id'),
                   ('tie', 'count-tie'), ('top_unused', 'highest-template-unused')):
        if info[k]:
            labels.append(lab)
            nt = True
    if info['checked_multi']:
        labels.append('multi-template-cluster-checked')
    if info['ambiguous']:
        labels.append('ambiguous-skipped')
    if info.get('edited_results'):
        labels.append('results-edited-in-place-then-queried-again')
    if s['wm']:
        labels.append('whitened')
    return labels, nt
