# -*- coding: utf-8 -*-
"""C19 - event dispatch order, sender filters, silencing; progress reporter completion."""

import contextlib
import functools
import io

from hypothesis import strategies as st
from hypothesis.stateful import rule, precondition, initialize

from .. import env, core
from ..core import require, must_return

env.import_phylib()
from phylib.utils import event as ev  # noqa: E402

def _dec(v):
    if isinstance(v, dict) and '$t' in v:
        return tuple(_dec(x) for x in v['$t'])
    return v


ID = 'C19'
LEVEL = 'exploration'
RULE = (
    "Two Hypothesis RuleBasedStateMachines; every rule funnels through one interpreter, the case "
    "is the operation trace. (emitter) fresh EventEmitter per example; 3 events (two of them named so that on_<event> starts with o/n), 3 senders (two compared by "
    "identity, one a tuple rebuilt on every use and compared by value) "
    "(+None filter), 6 callbacks (2 named on_<event> connected by name, 2 plain functions "
    "connected with event=, 2 bound methods of 2 owner objects), connect styles direct / "
    "decorator-with-arguments, last=True flag; rules connect, unconnect(callback|sender|owner), "
    "reset, set_silent (outside any silent context), enter/leave silent() (nesting <=3), "
    "emit(event, sender, args, kwargs, single). Oracle: list model of registrations; expected "
    "calls = matching registrations, non-last first then last, each in registration order; "
    "arguments passed unchanged; return = results in call order (first result only with single); "
    "nothing is called while silenced (flag set or inside a context). (reporter) global emitter "
    "reset per example; rules increment, set value below/at/above max, set maximum "
    "(raise/lower/equal), set_complete, reset(), reset(new_max). Oracle: armed flag per the "
    "statement. Non-trivial: a last callback registered before a plain one and both called, an "
    "unconnect between two emits of one event, nested silencing or a context entered while the "
    "flag is set followed by an emit, single with >=2 candidates; reporter: >=2 completions."
    ' Later additions: tuple/list/dict/format-character arguments, callables without __name__, a '
    'callable sender, identity of the sender object passed through.')
ASSUMPTIONS = ['Python object identity/equality for sender matching']

EVENTS = ['open', 'n_b', 'c']     # by-name events start with 'o' / 'n' (on_open, on_n_b)


# ---------------------------------------------------------------------------------------------
# Emitter interpreter
# ---------------------------------------------------------------------------------------------

class _Owner(object):
    def __init__(self, name, log):
        self.name = name
        self._log = log

    def handler(self, sender, *args, **kwargs):
        return self._log(('m' + self.name), sender, args, kwargs)


class _Sender(object):
    def __init__(self, i):
        self.i = i

    def __len__(self):
        return 0 if self.i == 1 else 3      # sender 1 is falsy (an empty selection-like object)

    def __repr__(self):
        return 'S%d' % self.i


class EmitterInterp(object):
    def __init__(self):
        self.em = ev.EventEmitter()
        self.calls = []
        self.ncalls = 0
        self.senders = [_Sender(i) for i in range(3)]

        class _CallableSender(object):
            def __call__(self, *a, **k):
                raise AssertionError('a sender is never called')

            def __repr__(self):
                return 'S3(callable)'
        self.callable_sender = _CallableSender()
        self.owners = [_Owner('0', self._log), _Owner('1', self._log)]
        log = self._log

        def on_open(sender, *args, **kwargs):
            return log('f0', sender, args, kwargs)

        def on_n_b(sender, *args, **kwargs):
            return log('f1', sender, args, kwargs)

        def plain2(sender, *args, **kwargs):
            return log('f2', sender, args, kwargs)

        def plain3(sender, *args, **kwargs):
            return log('f3', sender, args, kwargs)

        # callables without a __name__: a functools.partial and an instance with __call__ (always
        # connected with an explicit event name)
        def tagged(tag, sender, *args, **kwargs):
            return log('p6', sender, args, kwargs)

        class _Callable(object):
            def __call__(self, sender, *args, **kwargs):
                return log('c7', sender, args, kwargs)

        self.cbs = [on_open, on_n_b, plain2, plain3, self.owners[0].handler, self.owners[1].handler,
                    functools.partial(tagged, 'tag'), _Callable()]
        self.cb_names = ['f0', 'f1', 'f2', 'f3', 'm0', 'm1', 'p6', 'c7']
        self.regs = []          # model: dicts(event, sender, cb, last)
        self.flag = False       # model of set_silent
        self.depth = 0
        self.ctx = []
        # classification
        self.stats = dict(last_before_plain=False, unconnect_between=False, nested_emit=False,
                          flag_ctx_emit=False, single_multi=False, emits=0, silenced_emits=0)
        self._emitted = {}
        self._unconnected_since = set()

    def _log(self, name, sender, args, kwargs):
        self.ncalls += 1
        r = '%s#%d' % (name, self.ncalls)
        self.calls.append((name, sender, tuple(args), dict(kwargs), r))
        return r

    def _sender(self, k):
        if k is None:
            return None
        if k == 3:
            return self.callable_sender     # a sender that happens to be callable
        if k == 2:
            # a sender compared by value: a fresh, equal object on every use
            return tuple(['sender', 2 + len(self.senders) - 3])
        return self.senders[k]

    def step(self, op):
        o = op['op']
        em = self.em
        if o == 'connect':
            cb = self.cbs[op['cb']]
            sender = self._sender(op['sender'])
            by_name = op['cb'] in (0, 1) and op['event'] is None
            event = EVENTS[op['cb']] if by_name else (op['event'] or 'c')
            kw = {}
            if op['last']:
                kw['last'] = True
            if op['style'] == 'decorator':
                dec = must_return('connect()', em.connect, event=None if by_name else event,
                                  sender=sender, **kw)
                ret = must_return('connect decorator', dec, cb)
            else:
                ret = must_return('connect', em.connect, cb, event=None if by_name else event,
                                  sender=sender, **kw)
            require(ret == cb, 'connect does not return the callback', key='connect-return')
            self.regs.append(dict(event=event, sender=op['sender'], cb=op['cb'], last=op['last']))
        elif o == 'unconnect':
            before = len(self.regs)
            if op['what'] == 'cb':
                must_return('unconnect', em.unconnect, self.cbs[op['i']])
                self.regs = [r for r in self.regs if r['cb'] != op['i']]
            elif op['what'] == 'sender':
                must_return('unconnect', em.unconnect, self._sender(op['i']))
                self.regs = [r for r in self.regs if r['sender'] != op['i']]
            else:
                must_return('unconnect', em.unconnect, self.owners[op['i']])
                self.regs = [r for r in self.regs if r['cb'] != 4 + op['i']]
            if len(self.regs) < before:
                self._unconnected_since = set(self._emitted)
        elif o == 'reset':
            must_return('reset', em.reset)
            self.regs = []
        elif o == 'set_silent':
            if self.depth:
                raise core.Reject('set_silent inside a silent context is not defined')
            must_return('set_silent', em.set_silent, op['value'])
            self.flag = bool(op['value'])
        elif o == 'enter':
            if self.depth >= 3:
                raise core.Reject('nesting bound')
            cm = em.silent()
            must_return('silent().__enter__', cm.__enter__)
            self.ctx.append(cm)
            self.depth += 1
        elif o == 'leave':
            if not self.depth:
                raise core.Reject('no context to leave')
            cm = self.ctx.pop()
            must_return('silent().__exit__', cm.__exit__, None, None, None)
            self.depth -= 1
        elif o == 'emit':
            self._emit(op)
        else:
            raise ValueError(o)

    def _emit(self, op):
        event, sk = op['event'], op['sender']
        sender = self._sender(sk)
        args = tuple(_dec(a) for a in op['args'])
        kwargs = {k: _dec(v) for k, v in op['kwargs'].items()}
        call_kwargs = dict(kwargs)
        if op['single']:
            call_kwargs['single'] = True
        self.calls = []
        out = must_return('emit', self.em.emit, event, sender, *args, **call_kwargs)
        silenced = self.flag or self.depth > 0
        self.stats['emits'] += 1
        match = [r for r in self.regs if r['event'] == event and
                 (r['sender'] is None or r['sender'] == sk)]
        expected = [r for r in match if not r['last']] + [r for r in match if r['last']]
        if silenced:
            self.stats['silenced_emits'] += 1
            if self.depth >= 2:
                self.stats['nested_emit'] = True
            if self.flag and self.depth:
                self.stats['flag_ctx_emit'] = True
            require(not self.calls, 'callbacks called while silenced', key='silenced-call',
                    observed=[c[0] for c in self.calls],
                    expected='flag=%s depth=%d' % (self.flag, self.depth))
            return
        if op['single']:
            if len(expected) >= 2:
                self.stats['single_multi'] = True
            expected = expected[:1]
        got = [c[0] for c in self.calls]
        exp = [self.cb_names[r['cb']] for r in expected]
        require(got == exp, 'emit called the wrong callbacks / wrong order', key='emit-order',
                observed=got, expected=exp)
        for c in self.calls:
            # 'unchanged' is identity: the callback gets the very object that was emitted (not an
            # equal one, such as the filter it was registered with)
            require(c[1] is sender and c[2] == args and c[3] == kwargs,
                    'sender/arguments not passed through unchanged', key='emit-args',
                    observed=c[1:4], expected=(sender, args, kwargs))
        results = [c[4] for c in self.calls]
        if op['single']:
            if expected:
                require(out == results[0], 'single emit does not return the first result',
                        key='emit-single-return', observed=out, expected=results[0])
        else:
            require(out == results, 'emit does not return the results in call order',
                    key='emit-return', observed=out, expected=results)
        # classification helpers
        idx = [self.regs.index(r) for r in expected]
        if any(r['last'] for r in expected) and idx != sorted(idx):
            self.stats['last_before_plain'] = True
        if event in self._unconnected_since:
            self.stats['unconnect_between'] = True
            self._unconnected_since.discard(event)
        self._emitted[event] = True

    def finish(self):
        return dict(self.stats, kind='emitter')

    def close(self):
        while self.ctx:
            try:
                self.ctx.pop().__exit__(None, None, None)
            except Exception:
                pass


# ---------------------------------------------------------------------------------------------
# Progress reporter interpreter
# ---------------------------------------------------------------------------------------------

class ReporterInterp(object):
    def __init__(self):
        ev.reset()
        ev.set_silent(False)
        self.pr = ev.ProgressReporter()
        self.events = []
        pr = self.pr

        @ev.connect(sender=pr)
        def on_progress(sender, value, value_max, **kwargs):
            self.events.append(('progress', value, value_max, dict(kwargs)))

        @ev.connect(sender=pr)
        def on_complete(sender, **kwargs):
            self.events.append(('complete', dict(kwargs)))

        self.value = 0
        self.vmax = 0
        self.armed = True
        self.completions = 0
        self.jumps_after_reset = 0
        self._just_reset = False

    def _update(self, v, kwargs):
        """Model of a value update."""
        if v < self.vmax:
            self.armed = True
        self.value = v
        exp = [('progress', v, self.vmax, kwargs)]
        if v >= self.vmax and self.armed:
            exp.append(('complete', kwargs))
            self.armed = False
            self.completions += 1
            if self._just_reset:
                self.jumps_after_reset += 1
        self._just_reset = False
        return exp

    def step(self, op):
        o = op['op']
        pr = self.pr
        self.events = []
        exp = []
        if o == 'increment':
            kw = dict(op.get('kwargs') or {})
            must_return('increment', pr.increment, **kw)
            exp = self._update(self.value + 1, kw)
        elif o == 'set_value':
            v = self.vmax + op['rel']
            must_return('value setter', setattr, pr, 'value', v)
            exp = self._update(v, {})
        elif o == 'set_max':
            m = max(0, self.vmax + op['rel'])
            must_return('value_max setter', setattr, pr, 'value_max', m)
            if m > self.vmax:
                self.armed = True
            self.vmax = m
        elif o == 'set_complete':
            kw = dict(op.get('kwargs') or {})
            must_return('set_complete', pr.set_complete, **kw)
            exp = self._update(self.vmax, kw)
        elif o == 'reset':
            if op['max'] is None:
                must_return('reset', pr.reset)
                new_max = self.vmax
            else:
                new_max = op['max']
                must_return('reset', pr.reset, new_max)
            if new_max > self.vmax:
                self.armed = True      # the maximum was raised
            self.vmax = new_max
            self.value = 0
            if 0 < self.vmax:
                self.armed = True      # the value was set below the maximum
            self._just_reset = True
        else:
            raise ValueError(o)
        got_complete = [e for e in self.events if e[0] == 'complete']
        exp_complete = [e for e in exp if e[0] == 'complete']
        require(len(got_complete) == len(exp_complete),
                'completion announced %d times, expected %d' % (len(got_complete), len(exp_complete)),
                key='complete-count', observed=self.events, expected=exp)
        require(self.events == exp, 'progress/complete events differ from the model',
                key='reporter-events', observed=self.events, expected=exp)
        require(pr.value == self.value and pr.value_max == self.vmax,
                'value/value_max differ from the model', key='reporter-state',
                observed=(pr.value, pr.value_max), expected=(self.value, self.vmax))

    def finish(self):
        return dict(kind='reporter', completions=self.completions,
                    jumps_after_reset=self.jumps_after_reset)

    def close(self):
        ev.reset()
        ev.set_silent(False)


def new_interp(case):
    return EmitterInterp() if case.get('kind') == 'emitter' else ReporterInterp()


def check(case):
    with contextlib.redirect_stdout(io.StringIO()):
        import sys
        return core.replay_trace(sys.modules[__name__], case)


# ---------------------------------------------------------------------------------------------
# Machines
# ---------------------------------------------------------------------------------------------

_Base = core.make_trace_machine_base()
# arguments are arbitrary objects: tuples (written {'$t': [...]} in the JSON trace), lists, dicts,
# strings with formatting characters
_small = st.integers(-2, 5) | st.sampled_from(['x', 'yy', '100%', '%s %d', '{}']) | st.none() | \
    st.sampled_from([{'$t': []}, {'$t': [1]}, {'$t': [1, 'a']}, {'$t': [0, 1, 2]}, [3, 4], [],
                     {'a': 1}, 2.5])
_kwargs = st.dictionaries(st.sampled_from(['k', 'end', 'n']), _small, max_size=2)


class EmitterMachine(_Base):
    KIND = 'emitter'

    @initialize(salt=st.integers(0, 5))
    def begin(self, salt):
        self.start({'salt': salt})      # (only varies the ambient process state of the case)

    @rule(cb=st.integers(0, 7), event=st.sampled_from([None, 'open', 'open', 'open', 'n_b', 'c']),
          sender=st.sampled_from([None, None, 0, 0, 1, 2, 3, 3]), last=st.booleans(),
          style=st.sampled_from(['direct', 'decorator']))
    def connect(self, cb, event, sender, last, style):
        self.do(dict(op='connect', cb=cb, event=event, sender=sender, last=last, style=style))

    @rule(what=st.sampled_from(['cb', 'sender', 'owner']), i=st.integers(0, 7))
    def unconnect(self, what, i):
        n = {'cb': 8, 'sender': 4, 'owner': 2}[what]
        self.do(dict(op='unconnect', what=what, i=i % n))

    @rule()
    def reset(self):
        self.do(dict(op='reset'))

    @precondition(lambda self: self.interp is None or self.interp.depth == 0)
    @rule(value=st.sampled_from([False, False, False, True]))
    def set_silent(self, value):
        self.do(dict(op='set_silent', value=value))

    @precondition(lambda self: self.interp is None or self.interp.depth < 3)
    @rule()
    def enter(self):
        self.do(dict(op='enter'))

    @precondition(lambda self: self.interp is not None and self.interp.depth > 0)
    @rule()
    def leave(self):
        self.do(dict(op='leave'))

    @rule(event=st.sampled_from(['open', 'open', 'open', 'n_b', 'c']),
          sender=st.sampled_from([None, 0, 0, 1, 2, 3, 3]),
          args=st.lists(_small, max_size=2), kwargs=_kwargs, single=st.booleans())
    def emit(self, event, sender, args, kwargs, single):
        self.do(dict(op='emit', event=event, sender=sender, args=args, kwargs=kwargs,
                     single=single))


# more weight on connect/emit (rules are chosen uniformly)
EmitterMachine.connect2 = EmitterMachine.connect
EmitterMachine.emit2 = EmitterMachine.emit
EmitterMachine.emit3 = EmitterMachine.emit


class ReporterMachine(_Base):
    KIND = 'reporter'

    @initialize(salt=st.integers(0, 5))
    def begin(self, salt):
        self.start({'salt': salt})

    @rule(kwargs=st.none() | _kwargs)
    def increment(self, kwargs):
        self.do(dict(op='increment', kwargs=kwargs))

    @rule(rel=st.integers(-3, 2))
    def set_value(self, rel):
        self.do(dict(op='set_value', rel=rel))

    @rule(rel=st.integers(-2, 4))
    def set_max(self, rel):
        self.do(dict(op='set_max', rel=rel))

    @rule(kwargs=st.none() | _kwargs)
    def set_complete(self, kwargs):
        self.do(dict(op='set_complete', kwargs=kwargs))

    @rule(max=st.none() | st.integers(0, 6))
    def reset(self, max):
        self.do(dict(op='reset', max=max))


def _bind():
    import sys
    mod = sys.modules[__name__]
    EmitterMachine.MOD = mod
    ReporterMachine.MOD = mod


_bind()


def drivers(tier):
    th = tier == 'thorough'
    return [
        dict(kind='machine', name='emitter', machine=EmitterMachine,
             examples=100000 if th else 6000, steps=40 if th else 30),
        dict(kind='machine', name='reporter', machine=ReporterMachine,
             examples=100000 if th else 6000, steps=40 if th else 30),
    ]


def classify(case, info):
    labels = [info['kind'], 'len:%d' % (10 * (len(case['trace']) // 10))]
    nt = False
    if info['kind'] == 'emitter':
        for k in ('last_before_plain', 'unconnect_between', 'nested_emit', 'flag_ctx_emit',
                  'single_multi'):
            if info[k]:
                labels.append(k)
                nt = True
        if info['silenced_emits']:
            labels.append('silenced-emit')
    else:
        if info['completions'] >= 2:
            labels.append('>=2 completions')
            nt = True
        if info['jumps_after_reset']:
            labels.append('completion-right-after-reset')
            nt = True
    return labels, nt
