# -*- coding: utf-8 -*-
"""C16 - chunkings tile the sample axis exactly once."""

import itertools

import numpy as np

from .. import env, rec
from ..core import Violation, require, must_return, as_int_kind

env.import_phylib()
from phylib.io.array import chunk_bounds, excerpts, get_excerpts, data_chunk  # noqa: E402
from phylib.io.traces import _get_chunk_bounds, get_ephys_reader  # noqa: E402

ID = 'C16'
LEVEL = 'exploration'
RULE = (
    "Exhaustive enumeration, cut into 16 interleaved shards: (cb) all (n, chunk, overlap) with "
    "1<=n,chunk<=N, 0<=overlap<chunk; (ex) all (n, n_excerpts, excerpt_size) with n<=40, "
    "n_excerpts<=8, 1<=size<=12; (gcb) all file-size lists (<=3 files of <=8 samples; thorough "
    "<=4 files of <=9) x chunk lengths <=12, each checked on _get_chunk_bounds AND on a real "
    "FlatEphysReader over files of those sizes (chunk length set through sample_rate=c/600; file names in ascending, descending or "
    "run_8/run_9/run_10 order); (gcb-large) chunk lengths of hundreds of samples with file sizes "
    "just above a multiple of the chunk length; "
    "(gcb-rate) readers over sparse files of 30+ minutes at sampling rates for which 600 s is not a "
    "whole number of samples (29999.954 Hz, ...); get_excerpts also on 2-D and 3-D data; "
    "(cbin) mtscomp-compressed readers over n x chunk length x n_threads{1,2,3,5} x cache on/off. "
    "Oracle: row-set semantics on arange(n) (kept rows concatenate to arange(n), kept rows are a "
    "subset of the chunk's rows, chunk rows <= chunk size), monotone/boundary/gap predicates for "
    "reader bounds, contiguity of non-empty iterator intervals, excerpt predicates. "
    "Non-trivial: n not a multiple of (chunk-overlap), or n<chunk, or odd overlap, or a file "
    "shorter than the chunk length, or a one-chunk batch, or excerpts that truncate. Cases of an "
    "enumeration are distinct by construction; distinctness is nevertheless measured by hashing."
    ' Later additions: counts and sizes as NumPy integers of every width, n-D excerpts, readers d'
    'erived by channel selection / arithmetic, fractional samples per chunk on sparse 30-minute f'
    'iles, the same file name in several folders, a .cbin opened by path next to similarly named '
    'recordings, more threads than CPUs.')
ASSUMPTIONS = ['mtscomp as codec for the compressed reader']


# ---------------------------------------------------------------------------------------------
# case spaces
# ---------------------------------------------------------------------------------------------

def _cb_cases(N):
    for n in range(1, N + 1):
        for cs in range(1, N + 1):
            for ov in range(0, cs):
                yield {'k': 'cb', 'n': n, 'cs': cs, 'ov': ov}


def _ex_cases(N, NE, ES):
    for n in range(0, N + 1):
        for ne in range(0, NE + 1):
            for es in range(1, ES + 1):
                yield {'k': 'ex', 'n': n, 'ne': ne, 'es': es}


def _gcb_cases(K, S, C):
    for k in range(1, K + 1):
        for sizes in itertools.product(range(1, S + 1), repeat=k):
            for cs in range(1, C + 1):
                yield {'k': 'gcb', 'sizes': list(sizes), 'cs': cs}


def _gcb_large_cases(th):
    # realistic chunk lengths (hundreds of samples) with files ending just after a chunk boundary
    for cs in ([200, 600] if not th else [100, 199, 200, 201, 300, 600, 1000]):
        for q in (1, 2):
            for r in range(0, 8):
                yield {'k': 'gcb', 'sizes': [q * cs + r], 'cs': cs, 'large': True}
                yield {'k': 'gcb', 'sizes': [cs + 3, q * cs + r], 'cs': cs, 'large': True}
                yield {'k': 'gcb', 'sizes': [q * cs + r, 5, cs], 'cs': cs, 'large': True}


def _gcb_rate_cases(th):
    # real sampling rates: 600 s x rate is not a whole number of samples; recordings of 30+ minutes
    # (sparse files) so that there are >= 3 regular chunks
    for rate in ([29999.954, 30000.0004] if not th else
                 [29999.954, 30000.0004, 24414.0625, 2500.0007, 30000.0012, 19999.9993, 32051.28]):
        L = 600.0 * rate
        for sizes in ([int(3.2 * L)], [int(1.5 * L), int(2.3 * L) + 7]):
            yield {'k': 'gcb-rate', 'sizes': sizes, 'rate': rate}


def _cbin_cases(N, thorough):
    ns = range(1, N + 1)
    for n in ns:
        for c in sorted(set([1, 2, 3, 4, 5, 7, n - 1, n, n + 1]) - {0, -1}):
            if c < 1:
                continue
            if not thorough and n > 12 and c < 3:
                continue
            for nt in (1, 2, 3, 5):
                for cache in (False, True):
                    yield {'k': 'cbin', 'n': n, 'c': c, 'nt': nt, 'cache': cache}
    # more decompression threads than CPUs, many chunks
    for n, c, nt in ((40, 1, 20), (40, 1, 33), (37, 1, 18), (90, 2, 64)):
        for cache in (False, True):
            yield {'k': 'cbin', 'n': n, 'c': c, 'nt': nt, 'cache': cache}


def drivers(tier):
    th = tier == 'thorough'
    return [
        dict(kind='enum', name='cb', exhaustive=True, bound='n,chunk<=%d' % (224 if th else 96),
             cases=lambda: _cb_cases(224 if th else 96)),
        dict(kind='enum', name='ex', exhaustive=True, bound='n<=40,n_excerpts<=8,size<=12',
             cases=lambda: _ex_cases(40, 8, 12)),
        dict(kind='enum', name='gcb', exhaustive=True,
             bound='<=4 files of <=9, chunk<=12' if th else '<=3 files of <=8, chunk<=12',
             cases=lambda: _gcb_cases(4 if th else 3, 9 if th else 8, 12)),
        dict(kind='enum', name='gcb-large', exhaustive=False,
             bound='chunk lengths 200/600 (thorough: 100-1000), file sizes q*chunk + 0..7',
             cases=lambda: _gcb_large_cases(th)),
        dict(kind='enum', name='gcb-rate', exhaustive=False,
             bound='sampling rates with a fractional number of samples per 600 s, 30+ minutes',
             cases=lambda: _gcb_rate_cases(th)),
        dict(kind='enum', name='cbin', exhaustive=True, bound='n<=%d' % (40 if th else 16),
             cases=lambda: _cbin_cases(40 if th else 16, th)),
    ]


# ---------------------------------------------------------------------------------------------
# checks
# ---------------------------------------------------------------------------------------------

def _check_cb(case):
    n, cs, ov = case['n'], case['cs'], case['ov']
    data = np.arange(n)
    kk = n + 3 * cs + 5 * ov
    chunks = must_return('chunk_bounds', lambda: list(chunk_bounds(
        as_int_kind(n, kk), as_int_kind(cs, kk + 1), overlap=as_int_kind(ov, kk + 2))))
    kept_parts = []
    for ch in chunks:
        require(isinstance(ch, tuple) and len(ch) == 4, 'chunk is not a 4-tuple', key='cb-tuple',
                observed=ch)
        whole = data_chunk(data, ch, with_overlap=True)
        kept = data_chunk(data, ch)
        require(len(whole) <= cs, 'chunk holds more than chunk_size rows', key='cb-too-big',
                observed=(ch, len(whole)), expected=cs)
        require(np.all(np.isin(kept, whole)), 'kept part not inside its chunk', key='cb-kept-outside',
                observed=(ch, kept.tolist(), whole.tolist()))
        kept_parts.append(kept)
    got = np.concatenate(kept_parts) if kept_parts else np.array([], dtype=data.dtype)
    require(np.array_equal(got, data), 'kept parts do not tile the data exactly once',
            key='cb-tile', observed=got, expected=data)
    return chunks


def _check_ex(case):
    n, ne, es = case['n'], case['ne'], case['es']
    data = np.arange(n)
    exs = None
    if ne >= 2:
        exs = must_return('excerpts', lambda: list(excerpts(n, n_excerpts=ne, excerpt_size=es)))
        prev = 0
        require(len(exs) <= ne, 'more excerpts than requested', key='ex-count', observed=exs)
        for (a, b) in exs:
            require(0 <= a < b <= n, 'excerpt out of bounds or empty', key='ex-bounds',
                    observed=exs)
            require(b - a <= es, 'excerpt longer than requested', key='ex-size', observed=exs)
            require(a >= prev, 'excerpts overlap or decrease', key='ex-disjoint', observed=exs)
            prev = b
    # counts and sizes are Python ints or NumPy integers of any width
    kk = n + 3 * ne + 5 * es
    out = must_return('get_excerpts', get_excerpts, data, n_excerpts=as_int_kind(ne, kk),
                      excerpt_size=as_int_kind(es, kk + 3))
    if n < ne * es:
        require(np.array_equal(out, data), 'short data not returned whole', key='ex-short',
                observed=out, expected=data)
    else:
        require(len(out) <= ne * es, 'more rows than n_excerpts*size', key='ex-total',
                observed=len(out))
        require(np.all(np.diff(out) > 0), 'excerpt rows not increasing/disjoint', key='ex-rows',
                observed=out)
        require(np.all(np.isin(out, data)), 'rows not from data', key='ex-rows-in', observed=out)
        if exs is not None:
            exp = np.concatenate([data[a:b] for a, b in exs]) if exs else data[:0]
            require(np.array_equal(out, exp), 'get_excerpts differs from excerpts()',
                    key='ex-consistent', observed=out, expected=exp)
    # the data may have more dimensions (samples x channels): whole rows are excerpted
    for extra in ((2,), (3, 2)):
        dn = (np.arange(n).reshape((n,) + (1,) * len(extra)) * 7 +
              np.arange(int(np.prod(extra))).reshape(extra))
        outn = must_return('get_excerpts(%d-D data)' % dn.ndim, get_excerpts, dn, n_excerpts=ne,
                           excerpt_size=es)
        require(np.array_equal(np.asarray(outn), dn[np.asarray(out, dtype=np.int64)]),
                'get_excerpts(%d-D data) are not the rows excerpted from 1-D data' % dn.ndim,
                key='ex-rows-nd', observed=outn, expected=dn[np.asarray(out, dtype=np.int64)])
    return exs


def _bounds_predicates(b, sizes, cs, what):
    tot = sum(sizes)
    b = [int(x) for x in b]
    require(len(b) >= 2 and b[0] == 0 and b[-1] == tot, '%s do not run from 0 to n' % what,
            key=what + '-ends', observed=b, expected=(0, tot))
    require(all(y > x for x, y in zip(b, b[1:])), '%s not strictly increasing' % what,
            key=what + '-mono', observed=b)
    require(set(np.cumsum(sizes).tolist()) <= set(b), '%s miss a file boundary' % what,
            key=what + '-fileb', observed=b, expected=np.cumsum(sizes).tolist())
    require(max(y - x for x, y in zip(b, b[1:])) <= cs, '%s further apart than chunk length' % what,
            key=what + '-gap', observed=b, expected=cs)


def _iter_predicates(reader, n, what, cache=None):
    if cache is None:
        it = must_return(what, lambda: list(reader.iter_chunks()))
    else:
        it = must_return(what, lambda: list(reader.iter_chunks(cache=cache)))
    pos = 0
    for (i0, i1) in it:
        i0, i1 = int(i0), int(i1)
        if i0 == i1:
            continue
        require(i0 == pos and i1 > i0, '%s intervals do not tile in order' % what,
                key=what + '-tile', observed=it)
        pos = i1
    require(pos == n, '%s intervals stop before the end' % what, key=what + '-end',
            observed=it, expected=n)
    return it


def _check_gcb(case):
    sizes, cs = case['sizes'], case['cs']
    b = must_return('_get_chunk_bounds', _get_chunk_bounds, list(sizes), cs)
    _bounds_predicates(b, sizes, cs, 'chunk_bounds')
    # The same on a real multi-file reader.
    nch = 2
    arr = rec.values(sum(sizes), nch, np.int16)
    with env.scratch() as d:
        offset = [0, 4, 6, 0][(sum(sizes) + 2 * cs) % 4]     # header bytes in front of every file
        paths = rec.write_flat(d, arr, sizes, offset=offset,
                               order=['asc', 'desc', 'num', 'samebase'][(sum(sizes) + cs) % 4])
        r = must_return('get_ephys_reader', get_ephys_reader, paths, n_channels=nch,
                        dtype=np.int16, offset=offset, sample_rate=rec.rate_for_chunk(cs))
        try:
            _bounds_predicates(r.chunk_bounds, sizes, cs, 'reader-chunk_bounds')
            require([int(x) for x in r.part_bounds] == [0] + np.cumsum(sizes).tolist(),
                    'part_bounds wrong', key='part-bounds', observed=list(r.part_bounds))
            _iter_predicates(r, sum(sizes), 'iter_chunks')
            # readers derived from it (channel selection, arithmetic) describe the same recording
            for what, dr in (('derived[:, [1, 0]]', r[:, [1, 0]]), ('derived * 2', r * 2),
                             ('-derived[:, 0:1]', -(r[:, 0:1]))):
                _bounds_predicates(dr.chunk_bounds, sizes, cs, 'derived-chunk_bounds')
                _iter_predicates(dr, sum(sizes), 'derived-iter_chunks')
        finally:
            for m in getattr(r, '_mmaps', []):
                m._mmap.close()
        if (sum(sizes) + cs) % 5 == 0:
            # the recording is written again at the same paths with other lengths, then re-opened
            sizes2 = [s_ + 1 + k for k, s_ in enumerate(sizes)]
            arr2 = rec.values(sum(sizes2), nch, np.int16, 3)
            paths2 = rec.write_flat(d, arr2, sizes2, offset=offset,
                                    order=['asc', 'desc', 'num', 'samebase'][(sum(sizes) + cs) % 4])
            r2 = must_return('get_ephys_reader', get_ephys_reader, paths2, n_channels=nch,
                             dtype=np.int16, offset=offset, sample_rate=rec.rate_for_chunk(cs))
            try:
                _bounds_predicates(r2.chunk_bounds, sizes2, cs, 'reopened-chunk_bounds')
                _iter_predicates(r2, sum(sizes2), 'reopened-iter_chunks')
            finally:
                for m in getattr(r2, '_mmaps', []):
                    m._mmap.close()
    return b


def _check_gcb_rate(case):
    sizes, rate = case['sizes'], case['rate']
    cs = int(round(600.0 * rate))       # the chunk length: 600 s in whole samples
    with env.scratch() as d:
        paths = []
        for k, sz in enumerate(sizes):
            p = d / ('raw%d.dat' % k)
            with open(p, 'wb') as f:
                f.truncate(2 * sz)      # sparse: nothing is written or read
            paths.append(p)
        r = must_return('get_ephys_reader', get_ephys_reader, paths, n_channels=1, dtype=np.int16,
                        sample_rate=rate)
        try:
            _bounds_predicates(r.chunk_bounds, sizes, cs, 'reader-chunk_bounds')
            _iter_predicates(r, sum(sizes), 'iter_chunks')
        finally:
            for m in getattr(r, '_mmaps', []):
                m._mmap.close()
    return None


def _check_cbin(case):
    import mtscomp
    n, c, nt, cache = case['n'], case['c'], case['nt'], case['cache']
    arr = rec.values(n, 2, np.int16)
    with env.scratch() as d:
        path = rec.write_cbin(d, arr, sample_rate=1.0, chunk_duration=float(c))
        mr = mtscomp.Reader(n_threads=nt)
        mr.open(path)
        try:
            r = must_return('get_ephys_reader', get_ephys_reader, mr)
            _bounds_predicates(r.chunk_bounds, [n], c, 'cbin-chunk_bounds')
            it = _iter_predicates(r, n, 'cbin-iter_chunks', cache=cache)
            dr = r[:, [1, 0]] * 2
            _bounds_predicates(dr.chunk_bounds, [n], c, 'cbin-derived-chunk_bounds')
            _iter_predicates(dr, n, 'cbin-derived-iter_chunks', cache=cache)
        finally:
            mr.close()
        if (n + c + nt) % 3 == 0:
            # opened by path, in a folder that holds other recordings with similar names
            other = rec.values(n + 5, 2, np.int16, 4)
            for stem in ('raw-1', 'raw.ap', 'raw_g0', 'ra'):
                rec.write_cbin(d, other, sample_rate=1.0, chunk_duration=float(c + 2), stem=stem)
            r2 = must_return('get_ephys_reader(path)', get_ephys_reader, path)
            try:
                _bounds_predicates(r2.chunk_bounds, [n], c, 'cbin-by-path-chunk_bounds')
                _iter_predicates(r2, n, 'cbin-by-path-iter_chunks', cache=cache)
                require(tuple(r2.shape) == (n, 2), 'shape of a .cbin opened by path next to '
                        'similarly named recordings', key='cbin-by-path-shape', observed=r2.shape,
                        expected=(n, 2))
            finally:
                mt2 = getattr(r2, 'reader', None)
                if mt2 is not None:
                    mt2.close()
    return it


def check(case):
    k = case['k']
    if k == 'cb':
        return _check_cb(case)
    if k == 'ex':
        return _check_ex(case)
    if k == 'gcb':
        return _check_gcb(case)
    if k == 'gcb-rate':
        return _check_gcb_rate(case)
    if k == 'cbin':
        return _check_cbin(case)
    raise ValueError(k)


def classify(case, info):
    k = case['k']
    labels = [k]
    nt = False
    if k == 'cb':
        n, cs, ov = case['n'], case['cs'], case['ov']
        if n % (cs - ov):
            labels.append('cb:ragged')
            nt = True
        if n < cs:
            labels.append('cb:n<chunk')
            nt = True
        if ov % 2:
            labels.append('cb:odd-overlap')
            nt = True
        if len(info) >= 3:
            labels.append('cb:>=3chunks')
    elif k == 'ex':
        n, ne, es = case['n'], case['ne'], case['es']
        if n < ne * es:
            labels.append('ex:short')
        elif ne >= 2:
            labels.append('ex:sampled')
            nt = True
        if info and info[-1][1] - info[-1][0] < es:
            labels.append('ex:truncated-last')
            nt = True
    elif k == 'gcb':
        if any(s < case['cs'] for s in case['sizes']):
            labels.append('gcb:file<chunk')
            nt = True
        if any(s % case['cs'] for s in case['sizes']) and len(case['sizes']) > 1:
            labels.append('gcb:ragged-file')
            nt = True
    elif k == 'gcb-rate':
        labels.append('gcb-rate:fractional-samples-per-chunk')
        nt = True
    elif k == 'cbin':
        nchunks = -(-case['n'] // case['c'])
        if case['nt'] == 1:
            labels.append('cbin:batch1')
            nt = True
        if nchunks == 1:
            labels.append('cbin:1chunk')
            nt = True
        if nchunks % case['nt']:
            labels.append('cbin:ragged-batch')
            nt = True
        if any(int(a) == int(b) for a, b in info):
            labels.append('cbin:empty-interval-yielded')
    return labels, nt
