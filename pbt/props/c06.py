# -*- coding: utf-8 -*-
"""C06 - sparse feature storage is densified exactly."""

import numpy as np
from hypothesis import strategies as st

from .. import env, core, datasets as D
from ..core import require, must_return, must_raise, same_array, Violation

env.import_phylib()
from phylib.io.model import from_sparse  # noqa: E402

ID = 'C06'
LEVEL = 'exploration'
RULE = (
    "(fs) Hypothesis (data, column-table, requested-channels) triples for from_sparse: 0-8 spikes, "
    "1-5 local columns, 0-2 extra trailing dimensions, data dtypes int16/int32/float32/float64, "
    "column tables int32/uint32/int64 with distinct entries per row drawn from a channel universe "
    "of up to 9 ids (1 case in 8: probe-sized universes of 32-96 ids, 4-16 columns, requests of "
    "20+ ids incl. far-away unknown ids such as 100000), requests = duplicate-free lists/arrays "
    "incl. unknown ids and the empty list; "
    "a request with a duplicate must raise NotImplementedError. (model) generated datasets with "
    "pc-feature and template-feature stores, with and without a row (spike-id) table (>= 2 stored "
    "rows): get_features for strictly increasing spike subsets (also unstored spikes; values "
    "claimed for stored spikes only) x channel permutations/sub-lists, get_template_features for "
    "stored spikes. (pca) no feature files but a waveform store (read back from the exported files; half of "
    "the cases with rows padded by -1): features must equal +-X_c u_k "
    "for the three leading eigenvectors of cov(X_c)+I/n (only components with a relative "
    "eigen-gap > 1e-6; rtol 1e-4 because PCs are rounded to float32); one hand-made case requests "
    "1200 spikes at once (thorough: 999 / 1000 / 1200 / 2500). Oracle: triple loop 'value "
    "whose column index names that channel for the spike's template, else 0'. Non-trivial: a "
    "requested channel absent for some spikes and present for others, or an unsorted request, or "
    "a row table."
    ' Later additions: requests of more than 2**18 (thorough 2**20) stored rows, a row table of 4'
    '0 000 entries, NaN/inf stored values, results edited in place then the same request again, s'
    'tore rows padded with -1, an earlier extraction in the same session, from_sparse called agai'
    'n on the same (unchanged) arrays.')
ASSUMPTIONS = ['numpy.linalg.eigh in the PCA oracle']


@st.composite
def _fs_case(draw):
    big = draw(st.integers(0, 7)) == 0      # probe-sized tables and long requests
    ns = draw(st.integers(0, 8))
    nloc = draw(st.integers(1, 5)) if not big else draw(st.integers(4, 16))
    extra = draw(st.lists(st.integers(1, 3), max_size=2))
    universe = draw(st.integers(nloc, 9)) if not big else draw(st.integers(max(nloc, 32), 96))
    cols = [list(draw(st.permutations(list(range(universe)))))[:nloc] for _ in range(ns)]
    if big:
        nreq = draw(st.integers(20, universe))
        pool = st.integers(0, universe + 2) | st.sampled_from([1000, 100000, 2 ** 20])
        req = draw(st.lists(pool, min_size=nreq, max_size=nreq, unique=True))
    else:
        nreq = draw(st.sampled_from([0] + list(range(1, universe + 3)) * 2))
        req = draw(st.lists(st.integers(0, universe + 2), min_size=nreq, max_size=nreq,
                            unique=True))
    return {'k': 'fs', 'ns': ns, 'nloc': nloc, 'extra': extra, 'cols': cols, 'req': req,
            'ddt': draw(st.sampled_from(['int16', 'int32', 'float32', 'float64'])),
            'cdt': draw(st.sampled_from(['int32', 'uint32', 'int64'])),
            'req_as': draw(st.sampled_from(['list', 'int64', 'int32'])),
            'dup': draw(st.booleans())}


@st.composite
def _model_case(draw):
    spec = draw(D.dataset_spec(features=True, tfeatures=True, raw=False, naming='ks'))
    ns, nc = spec['ns'], spec['nc']
    if draw(st.integers(0, 3)) == 0:
        spec['pcf']['nonfinite'] = spec['tf']['nonfinite'] = True
    queries = []
    for _ in range(3):
        k = draw(st.integers(1, ns))
        sp = sorted(draw(st.lists(st.integers(0, ns - 1), min_size=k, max_size=k, unique=True)))
        if draw(st.booleans()):
            # a block of consecutive ids, asked in a shuffled order that keeps first < ... < last ends
            a = draw(st.integers(0, ns - 1))
            sp = list(range(a, min(ns, a + draw(st.integers(2, 6)))))
        kc = draw(st.integers(1, nc))
        ch = draw(st.lists(st.integers(0, nc - 1), min_size=kc, max_size=kc, unique=True))
        perm = list(draw(st.permutations(sp))) if draw(st.booleans()) else None
        if perm is not None and len(sp) >= 3 and draw(st.booleans()):
            perm = [sp[0]] + list(draw(st.permutations(sp[1:-1]))) + [sp[-1]]
        queries.append([sp, ch, perm])
    return {'k': 'model', 'spec': spec, 'queries': queries}


@st.composite
def _pca_case(draw):
    spec = draw(D.dataset_spec(features=False, tfeatures=False, raw=True, naming='ks', dense=True,
                               curated=False, raw_backends=('flat', 'npy')))
    spec['nsw'] = max(spec['nsw'], 3)
    ns, nc = spec['ns'], spec['nc']
    k = draw(st.integers(1, ns))
    sp = sorted(draw(st.lists(st.integers(0, ns - 1), min_size=k, max_size=k, unique=True)))
    kc = draw(st.integers(1, nc))
    ch = draw(st.lists(st.integers(0, nc - 1), min_size=kc, max_size=kc, unique=True))
    return {'k': 'pca', 'spec': spec, 'spikes': sp, 'channels': ch,
            'max_per_template': draw(st.integers(2, 8)), 'max_channels': draw(st.integers(1, nc)),
            # the default neighbourhood (12) exceeds the channel count: stored rows are -1 padded
            'padded': draw(st.booleans()),
            'earlier': draw(st.sampled_from([None, None, 2, 3, 9]))}


def _pca_large_cases(th):
    for ns in ([1200] if not th else [999, 1000, 1200, 2500]):
        yield {'k': 'pca', 'spec': D.large_pca_spec(ns), 'spikes': list(range(0, ns)),
               'channels': [2, 0, 3], 'max_per_template': 100000, 'max_channels': 4,
               'large': True}


def _model_large_cases(th):
    # one request that resolves to more than 2**18 (thorough: 2**20) stored rows
    for i, (ns, rows) in enumerate([(2 ** 18 + 5 + 60000, False), (2 * 2 ** 18 + 2 ** 17 + 9, True),
                                    (80000, True)] +      # a row table of 40 000 entries
                                   ([(2 ** 20 + 3, False), (2 ** 16 + 100, True)] if th else [])):
        yield {'k': 'model-large', 'ns': ns, 'seed': i + 1, 'rows': rows}


def _check_model_large(case):
    ns = case['ns']
    spec = D.large_spec(ns, seed=case['seed'])
    nt, nc = spec['nt'], spec['nc']
    if case['rows']:
        spec['pcf']['rows'] = list(range(0, ns, 2))      # every other spike is stored
    rs = np.random.RandomState(case['seed'])
    spec['tf'] = {'nloc': 2, 'rows': spec['pcf']['rows'],
                  'ind': [rs.permutation(nt)[:2].tolist() for _ in range(nt)],
                  'ind_dtype': 'uint32', 'dtype': 'float32', 'rows_dtype': 'int64'}
    with env.scratch() as d:
        T = D.build(spec, d / 'ds')
        m = D.load(T, must_return)
        try:
            sp = np.arange(ns, dtype=np.int64) if not case['rows'] else T.pcf_rows.astype(np.int64)
            ch = [nc - 1, 0, 3]
            st_ = np.asarray(T.spike_templates).astype(np.int64)[sp]
            out = must_return('get_features', m.get_features, sp, np.array(ch))
            exp = np.zeros((len(sp), len(ch), 3))
            for j, c in enumerate(ch):
                for k in range(T.pcf.shape[2]):
                    hit = T.pcf_ind.astype(np.int64)[st_, k] == c
                    exp[hit, j, :] = T.pcf[:len(sp)][hit, :, k]
            same_array('get_features (all %d stored spikes in one request)' % len(sp), out, exp,
                       key='get_features', dtype=False)
            out = must_return('get_template_features', m.get_template_features, sp)
            exp = np.zeros((len(sp), nt))
            for k in range(T.tf.shape[1]):
                exp[np.arange(len(sp)), T.tf_ind.astype(np.int64)[st_, k]] = T.tf[:len(sp), k]
            same_array('get_template_features (all %d stored spikes in one request)' % len(sp),
                       out, exp, key='get_template_features', dtype=False)
        finally:
            m.close()
    return {'mixed': True}


def drivers(tier):
    th = tier == 'thorough'
    return [
        dict(kind='enum', name='model-large', exhaustive=False,
             bound='requests of more than 2**18 (thorough: 2**20) stored rows',
             cases=lambda: _model_large_cases(th)),
        dict(kind='hyp', name='from_sparse', strategy=_fs_case(), examples=400000 if th else 30000),
        dict(kind='hyp', name='model', strategy=_model_case(), examples=60000 if th else 5000),
        dict(kind='hyp', name='pca', strategy=_pca_case(), examples=15000 if th else 1500),
        dict(kind='enum', name='pca-large', exhaustive=False, bound='1200 (thorough: also 999, '
             '1000, 2500) spikes with waveforms in one request',
             cases=lambda: _pca_large_cases(th)),
    ]


def _check_fs(case):
    ns, nloc, extra = case['ns'], case['nloc'], case['extra']
    shape = (ns, nloc) + tuple(extra)
    size = int(np.prod(shape))
    data = ((np.arange(size) * 7 + 3) % 23 + 1).reshape(shape).astype(case['ddt'])
    cols = np.array(case['cols'], dtype=case['cdt']).reshape((ns, nloc))
    req = case['req']
    reqv = list(req) if case['req_as'] == 'list' else np.array(req, dtype=case['req_as'])
    out = must_return('from_sparse', from_sparse, data, cols, reqv)
    exp = np.zeros((ns, len(req)) + tuple(extra), dtype=data.dtype)
    mixed = False
    for s in range(ns):
        for j, c in enumerate(req):
            for k in range(nloc):
                if case['cols'][s][k] == c:
                    exp[s, j] = data[s, k]
    for j, c in enumerate(req):
        has = [c in case['cols'][s] for s in range(ns)]
        if any(has) and not all(has):
            mixed = True
    same_array('from_sparse', out, exp, key='from_sparse')
    # the arguments are inputs only: a second conversion of the same arrays for other channels
    # gives what a first one would
    require(np.array_equal(cols, np.array(case['cols'], dtype=case['cdt']).reshape((ns, nloc))),
            'from_sparse modified the column table it was given', key='input-mutated',
            observed=cols)
    if req:
        req2 = list(reversed(req))[:max(1, len(req) // 2)] + [max(req) + 5]
        out2 = must_return('from_sparse (same arrays, other request)', from_sparse, data, cols,
                           req2)
        exp2 = np.zeros((ns, len(req2)) + tuple(extra), dtype=data.dtype)
        for s_ in range(ns):
            for j, c in enumerate(req2):
                for k in range(nloc):
                    if case['cols'][s_][k] == c:
                        exp2[s_, j] = data[s_, k]
        same_array('from_sparse (same arrays, other request)', out2, exp2, key='from_sparse')
    if case['dup'] and req:
        must_raise('from_sparse(duplicate request)', NotImplementedError, from_sparse, data, cols,
                   list(req) + [req[0]])
    return {'mixed': mixed}


def _row_of(rows, s):
    if rows is None:
        return s
    idx = np.nonzero(rows == s)[0]
    return int(idx[0]) if len(idx) else None


def _check_model(case):
    spec = case['spec']
    info = {'mixed': False}
    with env.scratch() as d:
        T = D.build(spec, d / 'ds')
        m = D.load(T, must_return)
        try:
            nt = spec['nt']
            for q in case['queries']:
                sp, ch = q[0], q[1]
                perm = q[2] if len(q) > 2 else None
                if perm is not None:
                    # get_features accepts the spikes in any order (values are per requested spike)
                    pa = np.array(perm, dtype=np.int64)
                    outp = must_return('get_features (permuted request)', m.get_features, pa,
                                       np.array(ch, dtype=np.int64))
                    for i, s in enumerate(perm):
                        r = _row_of(T.pcf_rows, s)
                        if r is None:
                            continue
                        t = int(T.spike_templates[s])
                        for j, c in enumerate(ch):
                            e = np.zeros(3)
                            for k in range(T.pcf.shape[2]):
                                if int(T.pcf_ind[t, k]) == c:
                                    e = T.pcf[r, :, k].astype(np.float64)
                            if not np.array_equal(outp[i, j], e, equal_nan=True):
                                raise Violation('get_features(permuted request: spike %d, channel '
                                                '%d) is not the stored value / zero' % (s, c),
                                                key='get_features-permuted', observed=outp[i, j],
                                                expected=e)
                spa = np.array(sp, dtype=np.int64)
                cha = np.array(ch, dtype=np.int64)
                out = must_return('get_features', m.get_features, spa, cha)
                require(out.shape == (len(sp), len(ch), 3), 'get_features shape', key='gf-shape',
                        observed=out.shape, expected=(len(sp), len(ch), 3))
                for i, s in enumerate(sp):
                    r = _row_of(T.pcf_rows, s)
                    if r is None:
                        continue        # values are claimed for stored spikes only
                    t = int(T.spike_templates[s])
                    for j, c in enumerate(ch):
                        e = np.zeros(3)
                        for k in range(T.pcf.shape[2]):
                            if int(T.pcf_ind[t, k]) == c:
                                e = T.pcf[r, :, k].astype(np.float64)
                        if not np.array_equal(out[i, j], e, equal_nan=True):
                            raise Violation('get_features(spike %d, channel %d) is not the stored '
                                            'value / zero' % (s, c), key='get_features',
                                            observed=out[i, j], expected=e)
                # the result belongs to the caller: editing it must not change a repeated request
                keep = np.array(out, copy=True)
                if core.scribble(out):
                    again = must_return('get_features (same request again)', m.get_features, spa, cha)
                    same_array('get_features (same request again, after the first result was '
                               'edited in place)', again, keep, key='get_features-second-call')
                for c in ch:
                    has = [c in T.pcf_ind[int(T.spike_templates[s])].tolist() for s in sp]
                    if any(has) and not all(has):
                        info['mixed'] = True
                # template features: stored spikes only (the method's own precondition)
                sp_tf = [s for s in sp if _row_of(T.tf_rows, s) is not None]
                if sp_tf:
                    out = must_return('get_template_features', m.get_template_features,
                                      np.array(sp_tf, dtype=np.int64))
                    require(out.shape == (len(sp_tf), nt), 'get_template_features shape',
                            key='gtf-shape', observed=out.shape, expected=(len(sp_tf), nt))
                    exp = np.zeros((len(sp_tf), nt), dtype=T.tf.dtype)
                    for i, s in enumerate(sp_tf):
                        r = _row_of(T.tf_rows, s)
                        t = int(T.spike_templates[s])
                        for k in range(T.tf.shape[1]):
                            exp[i, int(T.tf_ind[t, k])] = T.tf[r, k]
                    same_array('get_template_features', out, exp, key='get_template_features',
                               dtype=False)
        finally:
            m.close()
    return info


def _check_pca(case):
    spec = case['spec']
    info = {'compared': 0, 'stored': 0}
    with env.scratch() as d:
        T = D.build(spec, d / 'ds')
        m = D.load(T, must_return)
        try:
            if not case.get('padded'):
                m.n_closest_channels = min(m.n_closest_channels, spec['nc'])
            np.random.seed(spec['seed'] % (2 ** 32))    # SpikeSelector draws from np.random
            sel = D.store_selection_size(T, m, case['max_per_template'])
            if sel < 2:
                # a store holding a single spike is squeezed to 0-d arrays (documented degeneracy)
                raise core.Reject('store would hold < 2 spikes')
            if case.get('earlier'):
                # an earlier extraction in the same session, with another subset size
                if D.store_selection_size(T, m, case['earlier']) >= 2:
                    must_return('save_spikes_subset_waveforms (earlier)',
                                m.save_spikes_subset_waveforms,
                                max_n_spikes_per_template=case['earlier'],
                                max_n_channels=case['max_channels'])
                    info['second_extraction'] = True
            must_return('save_spikes_subset_waveforms', m.save_spikes_subset_waveforms,
                        max_n_spikes_per_template=case['max_per_template'],
                        max_n_channels=case['max_channels'])
            require(m.spike_waveforms is not None, 'store not loaded', key='pca-store')
            sp = np.array(case['spikes'], dtype=np.int64)
            ch = np.array(case['channels'], dtype=np.int64)
            # (which spikes are stored is read from the exported files, not from the model)
            stored = np.intersect1d(sp, np.load(T.dir / '_phy_spikes_subset.spikes.npy'))
            info['stored'] = len(stored)
            if len(stored) == 0:
                return info     # nothing is claimed; compute_features of an empty set is undefined
            out = must_return('get_features (PCA path)', m.get_features, sp, ch)
            require(out.shape == (len(sp), len(ch), 3), 'PCA features shape', key='pca-shape',
                    observed=out.shape, expected=(len(sp), len(ch), 3))
            # the waveforms of the stored spikes on the requested channels, read from the exported
            # store files (zeros where a channel is not stored for a spike; -1 pads the rows)
            f_ids = np.load(T.dir / '_phy_spikes_subset.spikes.npy')
            f_ch = np.load(T.dir / '_phy_spikes_subset.channels.npy')
            f_wav = np.load(T.dir / '_phy_spikes_subset.waveforms.npy')
            X = np.zeros((len(stored), f_wav.shape[1], len(ch)))
            for i, s_ in enumerate(stored):
                r = int(np.nonzero(f_ids == s_)[0][0])
                for j, c_ in enumerate(ch):
                    k_ = np.nonzero(f_ch[r] == c_)[0]
                    if len(k_):
                        X[i, :, j] = f_wav[r, :, int(k_[0])]
            if np.any(f_ch == -1):
                info['padded'] = True
            n = X.shape[0]
            pos = {int(s): i for i, s in enumerate(sp)}
            for s in sp:
                if int(s) not in set(stored.tolist()):
                    require(not np.any(out[pos[int(s)]]), 'features of a spike outside the store '
                            'are not zero', key='pca-missing', observed=out[pos[int(s)]])
            for c in range(len(ch)):
                Xc = X[:, :, c]
                cov = np.eye(Xc.shape[1]) / n
                if n > 1:
                    cov = cov + np.cov(Xc, rowvar=0)
                vals, vecs = np.linalg.eigh(cov)
                order = np.argsort(vals)[::-1]
                vals, vecs = vals[order], vecs[:, order]
                scale = np.max(np.abs(Xc)) or 1.0
                for k in range(3):
                    gap_ok = True
                    for other in (k - 1, k + 1):
                        if 0 <= other < len(vals) and \
                                abs(vals[k] - vals[other]) <= 1e-6 * max(abs(vals[0]), 1e-30):
                            gap_ok = False
                    got = np.array([out[pos[int(s)], c, k] for s in stored], dtype=np.float64)
                    if not np.any(Xc):
                        require(not np.any(got), 'projection of all-zero waveforms is not zero',
                                key='pca-zero', observed=got)
                        continue
                    if not gap_ok:
                        continue
                    e = Xc @ vecs[:, k]
                    tol = 1e-4 * scale * np.sqrt(Xc.shape[1]) + 1e-6
                    ok = np.allclose(got, e, rtol=1e-4, atol=tol) or \
                        np.allclose(got, -e, rtol=1e-4, atol=tol)
                    info['compared'] += 1
                    require(ok, 'feature %d on channel %d is not the projection on the principal '
                            'component' % (k, int(ch[c])), key='pca-projection', observed=got,
                            expected=e)
            keep = np.array(out, copy=True)
            if core.scribble(out):
                again = must_return('get_features (PCA path, same request again)', m.get_features,
                                    sp, ch)
                same_array('get_features (PCA path, same request again, after the first result '
                           'was edited in place)', again, keep, key='pca-second-call',
                           tol=(1e-6, 1e-9))
        finally:
            m.close()
    return info


def check(case):
    k = case['k']
    if k == 'fs':
        return _check_fs(case)
    if k == 'model':
        return _check_model(case)
    if k == 'model-large':
        return _check_model_large(case)
    return _check_pca(case)


def classify(case, info):
    k = case['k']
    labels = [k]
    nt = False
    if info.get('mixed'):
        labels.append(k + ':channel-present-for-some-spikes-only')
        nt = True
    if k == 'fs':
        if case['req'] != sorted(case['req']):
            labels.append('fs:unsorted-request')
            nt = True
        if not case['req']:
            labels.append('fs:empty-request')
        if case['ns'] == 0:
            labels.append('fs:no-spikes')
        if case['extra']:
            labels.append('fs:extra-dims')
        if case['cdt'] == 'uint32':
            labels.append('fs:uint32-cols')
        if len(case['req']) >= 20:
            labels.append('fs:long-request')
    elif k == 'model-large':
        labels.append('request>2**18-rows' + ('+row-table' if case['rows'] else ''))
        nt = True
    elif k == 'model':
        s = case['spec']
        if s['pcf'].get('nonfinite'):
            labels.append('model:non-finite-stored-values')
        if s['pcf']['rows'] is not None:
            labels.append('model:pcf-row-table')
            nt = True
        if s['tf']['rows'] is not None:
            labels.append('model:tf-row-table')
            nt = True
        if any(q[1] != sorted(q[1]) for q in case['queries']):
            labels.append('model:unsorted-channels')
            nt = True
    else:
        if info.get('compared'):
            labels.append('pca:components-compared')
            nt = True
        if info.get('stored', 0) < len(case['spikes']):
            labels.append('pca:some-spikes-outside-store')
        if case.get('large'):
            labels.append('pca:>=1000-spikes-in-one-request')
        if info.get('padded'):
            labels.append('pca:store-rows-padded-with--1')
        if info.get('second_extraction'):
            labels.append('pca:second-extraction-in-session')
    return labels, nt
