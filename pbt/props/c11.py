# -*- coding: utf-8 -*-
"""C11 - merging probes conserves every spike and renumbers ids disjointly."""

import math
import os

import numpy as np
from hypothesis import strategies as st

from .. import env, core, datasets as D, merging as G
from ..core import require, must_return, same_array, Violation

env.import_phylib()
from phylib.utils._misc import _read_tsv_simple  # noqa: E402  (only to locate files; not an oracle)

ID = 'C11'
LEVEL = 'exploration'
RULE = (
    "Hypothesis: 1..4 probe directories (k>=3 in about 40% of the cases) with independent spike "
    "counts (2-25), spike-time vectors with ties inside and across probes, template ids with gaps "
    "(unused ids anywhere incl. the highest), curated clusters with ids above the template range, "
    "id dtypes int32/uint32/int64 and time dtypes int64/uint64/int32/uint32 mixed between probes, "
    "(n,) and (n,1) vectors, the three recognised cluster_*.tsv files present in all / some / "
    "none of the probes. Oracle (from the generated specs): merged order = stable sort of the "
    "concatenation by time; merged spike j <-> (probe k, index i): equal time and amplitude, "
    "template = original + Toff[k], cluster = original + Coff[k] with one constant offset per "
    "probe (inferred from the output, not assumed) and pairwise disjoint id ranges; "
    "cluster_probes[c + Coff[k]] == k; merged TSV value at id + Coff[k] == the probe's value at "
    "id and no other keys; every (probe, index) pair exactly once; SHA-256 of every input file "
    "unchanged; the returned model's spike arrays equal the written files. Non-trivial: >=2 "
    "probes with a cross-probe time tie, or >=3 probes, or unequal spike counts, or a TSV present "
    "in some probes only. In half of the cases the same probe directories are merged a second time "
    "in the same process (same or reversed order, or merge() called again on the same Merger) and "
    "verified again."
    ' Later additions: relative probe paths, merge() again on the same Merger, a failed merge() f'
    'ollowed by a retry on the same object, sessions one after the other, (1, n) channel vectors,'
    ' mixed template dtypes, 2**18+ / 1.1 million merged spikes, one probe with 9 million spikes '
    '(72 MiB input files).')
ASSUMPTIONS = ['merging requires amplitudes.npy, pc_feature_ind.npy, template_feature_ind.npy and '
               'spike_clusters.npy in every probe (KiloSort always writes them)']


@st.composite
def _case(draw):
    c = draw(G.merge_case())
    # a second merge in the same process (same probe directories, same or reversed order)
    c['again'] = draw(st.sampled_from([None, None, 'same', 'reversed', 'same-merger',
                                       'retry-after-failure']))
    return c


def _large_cases(th):
    # more than 2**20 (quick: 2**18) merged spikes
    for i, sizes in enumerate([[2 ** 18 - 50000, 60000, 7], [700000, 400000]] +
                              ([[2 ** 20 + 5, 2 ** 20 - 3, 11]] if th else [])):
        yield {'large': {'sizes': sizes, 'seed': i + 1}, 'again': None}


def _huge_input_cases(th):
    # per-spike input files above 64 MiB (9 million spikes with 64-bit ids)
    yield {'huge_inputs': {'ns': 9000000, 'seed': 5}, 'again': None}
    if th:
        yield {'huge_inputs': {'ns': 17000000, 'seed': 6}, 'again': None}


def _check_huge_inputs(par):
    """Spike conservation, time order, constant id offsets and untouched inputs, vectorised."""
    ns = par['ns']
    rs = np.random.RandomState(par['seed'])
    case = _expand_large({'sizes': [50, 60], 'seed': par['seed']})
    import shutil
    with env.scratch() as d:
        if shutil.disk_usage(str(d)).free < 160 * ns * 3:
            # about 1.3 GB of scratch space per 9 million spikes (inputs + merged output)
            raise core.Reject('not enough scratch space for the huge-inputs case')
        Ts = G.build_probes(case, d)
        # the second probe is a long recording: its per-spike files are replaced by big ones
        big = Ts[1].dir
        nt = Ts[1].spec['nt']
        times = np.sort(rs.randint(0, 3 * ns, size=ns)).astype(np.int64)
        tmpl = rs.randint(0, nt, size=ns).astype(np.int64)
        amps = rs.rand(ns)
        np.save(big / 'spike_times.npy', times)
        np.save(big / 'spike_templates.npy', tmpl)
        np.save(big / 'spike_clusters.npy', tmpl)
        np.save(big / 'amplitudes.npy', amps)
        np.save(big / 'pc_features.npy', np.zeros((ns, 3, 2), dtype=np.float32))
        np.save(big / 'template_features.npy', np.zeros((ns, 2), dtype=np.float32))
        before = [D.sha_dir(T.dir) for T in Ts]
        merger, model = G.run_merge(Ts, d / 'merged', must_return)
        try:
            model.close()
        except Exception:
            pass
        after = [D.sha_dir(T.dir) for T in Ts]
        for k, (b, a) in enumerate(zip(before, after)):
            require(a == b, 'input directory of probe %d changed' % k, key='inputs-changed',
                    observed=sorted(set(a.items()) ^ set(b.items())))
        out = d / 'merged'
        t0 = np.asarray(Ts[0].samples).astype(np.int64)
        allt = np.r_[t0, times]
        order = np.argsort(allt, kind='stable')
        mt_ = np.load(out / 'spike_times.npy')
        same_array('merged spike times (stable time-sorted concatenation)', mt_.astype(np.int64),
                   allt[order], key='times')
        probe = np.r_[np.zeros(len(t0), dtype=np.int64), np.ones(ns, dtype=np.int64)][order]
        orig = np.r_[np.asarray(Ts[0].spike_templates).astype(np.int64), tmpl][order]
        for name in ('spike_templates.npy', 'spike_clusters.npy'):
            m_ = np.load(out / name).astype(np.int64)
            off = m_ - orig
            for k in (0, 1):
                o = off[probe == k]
                require(len(o) and np.all(o == o[0]) and o[0] >= 0, '%s: offset is not constant '
                        'within probe %d' % (name, k), key='offset-constant')
        same_array('merged amplitudes', np.load(out / 'amplitudes.npy'),
                   np.r_[np.asarray(Ts[0].amplitudes, dtype=np.float64), amps][order],
                   key='amplitudes', dtype=False)
    return {'cross_tie': True}


def _expand_large(par):
    probes = []
    for k, ns in enumerate(par['sizes']):
        rs = np.random.RandomState(par['seed'] * 10 + k)
        spec = D.large_spec(ns, seed=par['seed'] * 10 + k, nt=4, nc=3, nsw=3)
        spec['n_raw'] = 3 * max(par['sizes'])
        spec['samples'] = np.sort(rs.randint(0, spec['n_raw'], size=ns)).tolist()   # many ties
        spec['time_dtype'] = ['uint64', 'int64'][k % 2]
        spec['pcf']['nloc'] = 2
        spec['pcf']['ind'] = [row[:2] for row in spec['pcf']['ind']]
        spec['tf'] = {'nloc': 2, 'rows': None, 'ind': [rs.permutation(4)[:2].tolist()
                                                        for _ in range(4)],
                      'ind_dtype': 'uint32', 'dtype': 'float32', 'rows_dtype': 'int64'}
        spec['tsv'] = {fn: True for fn in G.TSV_FILES}
        spec['tsv_salt'] = k
        spec['pos'] = [[10.0 * i, 20.0 * i] for i in range(3)]
        probes.append(spec)
    return {'probes': probes, 'dir_names': 'asc', 'out_is_parent': False}


def drivers(tier):
    th = tier == 'thorough'
    return [dict(kind='enum', name='huge-inputs', exhaustive=False,
                 bound='one probe with 9 (thorough: also 17) million spikes (input files of 72 MiB)',
                 cases=lambda: _huge_input_cases(th)),
            dict(kind='enum', name='large', exhaustive=False,
                 bound='more than 2**18 (second case and thorough: 2**20) merged spikes',
                 cases=lambda: _large_cases(th)),
            dict(kind='hyp', name='merges', strategy=_case(), examples=60000 if th else 6000)]


def _read_simple(path):
    """Independent two-column reader for the oracle."""
    out = {}
    with open(path, newline='') as f:
        lines = f.read().splitlines()
    field = lines[0].split('\t')[1]
    for ln in lines[1:]:
        if not ln:
            continue
        c, v = ln.split('\t')
        out[int(c)] = v
    return field, out


def infer_offsets(order, Ts, merged, attr, what):
    """One constant offset per probe between merged ids and original ids."""
    offs = {}
    for j, (k, i) in enumerate(order):
        off = int(merged[j]) - int(getattr(Ts[k], attr)[i])
        if k not in offs:
            offs[k] = off
        require(offs[k] == off, '%s: offset is not constant within probe %d' % (what, k),
                key='offset-constant', observed=(offs[k], off))
    return [offs[k] for k in range(len(Ts))]


def _verify(Ts, out, model, info):
    """All C11 clauses for one merge of the probe list Ts into out."""
    if True:
        if True:
            order = G.expected_order(Ts)
            n = len(order)
            st_ = np.load(out / 'spike_times.npy')
            require(st_.shape == (n,), 'merged spike count', key='spike-count', observed=st_.shape,
                    expected=n)
            require(np.all(np.diff(st_.astype(np.float64)) >= 0), 'merged times not non-decreasing',
                    key='times-order', observed=st_)
            exp_t = [int(Ts[k].samples[i]) for k, i in order]
            require([int(x) for x in st_] == exp_t, 'merged spike times are not the stable '
                    'time-sorted concatenation', key='times', observed=st_, expected=exp_t)
            amp = np.load(out / 'amplitudes.npy')
            exp_a = np.array([Ts[k].amplitudes[i] for k, i in order])
            same_array('merged amplitudes (original order within a probe, probe order on ties)',
                       amp, exp_a, key='amplitudes', dtype=False)
            mt = np.load(out / 'spike_templates.npy')
            mc = np.load(out / 'spike_clusters.npy')
            require(mt.shape == (n,) and mc.shape == (n,), 'merged id vector lengths',
                    key='spike-count', observed=(mt.shape, mc.shape))
            toff = infer_offsets(order, Ts, mt, 'spike_templates', 'spike_templates')
            coff = infer_offsets(order, Ts, mc, 'spike_clusters', 'spike_clusters')
            for name, offs, attr in (('template', toff, 'spike_templates'),
                                     ('cluster', coff, 'spike_clusters')):
                ranges = []
                for k, T in enumerate(Ts):
                    ids = [int(x) for x in getattr(T, attr)]
                    ranges.append((offs[k] + min(ids), offs[k] + max(ids), k))
                    require(offs[k] >= 0, '%s offset negative' % name, key='offset-negative')
                ranges.sort()
                for (a0, a1, ka), (b0, b1, kb) in zip(ranges, ranges[1:]):
                    require(a1 < b0, '%s ids of probes %d and %d collide' % (name, ka, kb),
                            key='ids-collide', observed=ranges)
            cp = np.load(out / 'cluster_probes.npy')
            for k, T in enumerate(Ts):
                for c in sorted(set(int(x) for x in T.spike_clusters)):
                    j = c + coff[k]
                    require(j < len(cp) and int(cp[j]) == k, 'cluster_probes does not point back '
                            'to the originating probe', key='cluster-probes',
                            observed=(j, cp.tolist()), expected=k)
            # per-cluster metadata
            some_only = False
            for fn in G.TSV_FILES:
                have = [k for k, T in enumerate(Ts) if fn in T.tsv]
                if 0 < len(have) < len(Ts):
                    some_only = True
                exp = {}
                for k in have:
                    for c, v in Ts[k].tsv[fn].items():
                        exp[c + coff[k]] = v
                p = out / fn
                if not exp:
                    require(not p.exists() or not _read_simple(p)[1], 'merged %s has entries '
                            'although no probe has any' % fn, key='tsv-extra')
                    continue
                require(p.exists(), 'merged %s missing' % fn, key='tsv-missing')
                field, got = _read_simple(p)
                require(field == fn[len('cluster_'):-4], 'merged TSV field name', key='tsv-field',
                        observed=field)
                require(sorted(got) == sorted(exp), 'merged %s: keys are not the renumbered '
                        'cluster ids' % fn, key='tsv-keys', observed=sorted(got),
                        expected=sorted(exp))
                for c, v in exp.items():
                    g = got[c]
                    ok = (g == v) if isinstance(v, str) else \
                        math.isclose(float(g), v, rel_tol=1e-12)
                    require(ok, 'merged %s: value of id %d' % (fn, c), key='tsv-value',
                            observed=g, expected=v)
            info['some_only'] = some_only
            # the returned model shows the written files
            same_array('model.spike_templates', model.spike_templates, mt, key='model-arrays',
                       dtype=False)
            same_array('model.spike_clusters', model.spike_clusters, mc, key='model-arrays',
                       dtype=False)
            same_array('model.spike_samples', model.spike_samples, st_, key='model-arrays',
                       dtype=False)
            same_array('model.amplitudes', model.amplitudes, amp, key='model-arrays', dtype=False)


def check(case):
    info = {}
    if 'huge_inputs' in case:
        return _check_huge_inputs(case['huge_inputs'])
    if 'large' in case:
        case = dict(_expand_large(case['large']), again=case.get('again'))
    with env.scratch() as d:
        Ts = G.build_probes(case, d)
        before = [D.sha_dir(T.dir) for T in Ts]
        runs = [(Ts, G.out_dir_for(case, d))]
        if case.get('again') == 'same':
            runs.append((Ts, d / 'merged2'))
        elif case.get('again') == 'reversed':
            runs.append((Ts[::-1], d / 'merged2'))
        for Tl, out in runs:
            if case.get('again') == 'retry-after-failure':
                # a required file of the last probe is not there yet: the first merge() fails (or
                # not - that call is not judged); the file arrives and merge() is called again
                from phylib.io.merge import Merger
                victim = Tl[-1].dir / 'amplitudes.npy'
                aside = d / 'not-copied-yet.npy'
                os.replace(victim, aside)
                merger = must_return('Merger()', Merger, [T.dir for T in Tl], out)
                try:
                    with core.ambient_ctx():
                        merger.merge()
                except Exception:
                    info['first_merge_failed'] = True
                os.replace(aside, victim)
                model = must_return('Merger.merge() (retry on the same object after a failed '
                                    'call)', merger.merge)
            else:
                merger, model = G.run_merge(Tl, out, must_return,
                                            rel_root=d if case.get('rel') else None)
            try:
                _verify(Tl, out, model, info)
            finally:
                try:
                    model.close()
                except Exception:
                    pass
            if case.get('again') == 'same-merger':
                with G.in_dir(d if case.get('rel') else None):
                    model = must_return('Merger.merge() (second call on the same object)',
                                        merger.merge)
                try:
                    _verify(Tl, out, model, info)
                finally:
                    try:
                        model.close()
                    except Exception:
                        pass
            after = [D.sha_dir(T.dir) for T in Ts]
            for k, (b, a) in enumerate(zip(before, after)):
                require(a == b, 'input directory of probe %d changed' % k, key='inputs-changed',
                        observed=sorted(set(a.items()) ^ set(b.items())))
    times = [set(int(x) for x in T.samples) for T in Ts]
    info['cross_tie'] = any(times[i] & times[j] for i in range(len(Ts))
                            for j in range(i + 1, len(Ts)))
    return info


def classify(case, info):
    if 'huge_inputs' in case:
        return ['huge-inputs:%d-spikes' % case['huge_inputs']['ns']], True
    if 'large' in case:
        return ['large:%d-merged-spikes' % sum(case['large']['sizes']),
                'probes:%d' % len(case['large']['sizes'])], True
    ps = case['probes']
    labels = ['probes:%d' % len(ps)]
    nt = False
    if len(ps) >= 2 and info['cross_tie']:
        labels.append('cross-probe-time-tie')
        nt = True
    if len(ps) >= 3:
        nt = True
    if len(set(p['ns'] for p in ps)) > 1:
        labels.append('unequal-spike-counts')
        nt = True
    if info.get('some_only'):
        labels.append('tsv-in-some-probes-only')
        nt = True
    if any(p['curation'] for p in ps):
        labels.append('curated-probe')
    if case.get('again'):
        labels.append('second-merge-in-process:' + case['again'])
    if case.get('rel'):
        labels.append('relative-probe-paths')
    if len(set(p['tmpl_dtype'] for p in ps)) > 1 or len(set(p['clu_dtype'] for p in ps)) > 1:
        labels.append('mixed-id-dtypes')
    if len(set(p['time_dtype'] for p in ps)) > 1:
        labels.append('mixed-time-dtypes')
    if any(max(p['spike_templates']) < p['nt'] - 1 for p in ps[:-1]):
        labels.append('non-last-probe-highest-template-unused')
    return labels, nt
