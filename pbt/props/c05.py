# -*- coding: utf-8 -*-
"""C05 - template records are aligned with their channel list (dense and sparse storage)."""

import numpy as np
from hypothesis import strategies as st

from .. import env, core, datasets as D, oracles as O
from ..core import require, must_return, same_array, Violation

env.import_phylib()

ID = 'C05'
LEVEL = 'exploration'
THRESHOLDS = [None, 0, 0.3, 0.8, 1]
RULE = (
    "Hypothesis datasets: dense templates (2-24 channels so both more and fewer channels than the "
    "neighbourhood size; n_closest_channels set on the instance to 2..12; multi-shank; generic, "
    "grid and single-column geometries with distance ties; whitening present/absent; normal and "
    "small-integer template values (amplitude ties)) and sparse templates (column tables with -1 "
    "and all-zero columns). Every template x thresholds {None,0,0.3,0.8,1} (None = the model's default threshold, "
    "left at 0 or raised to 0.3/0.5 on the instance) x whitened/unwhitened "
    "requests, plus generated explicit channel lists. Oracle: U = T[t] @ wmi, amp = ptp(U); "
    "distinct channels; non-increasing amplitudes, first channel and best_channel maximal; "
    "template[:, j] ~ U[:, ch[j]]; amplitude[j] ~ amp[ch[j]]; channel set between the must/may "
    "sets of some admissible peak (don't-care bands at the threshold, at the nearest-channel "
    "cut-off and for tied peaks); sparse: stored channels minus -1 minus signal-free columns, "
    "un-whitening on the sub-matrix; get_template_channels / get_template_waveforms / "
    "get_cluster_channels agree with the record. Non-trivial: more channels than the "
    "neighbourhood with >=2 shanks, or a threshold strictly inside (0,1) that removes a channel, "
    "or a sparse row with both a -1 and an all-zero column."
    ' Later additions: waveform units 1e-4..1e-9 and 300, faint stored channels, templates exactl'
    'y zero outside a footprint (threshold-0 lists exact), configuration on a subclass, integer w'
    'hitening matrices, probes of 64-400 channels.')
ASSUMPTIONS = ['float32 rounding of the un-whitened template: rtol 1e-5 and decision bands']


@st.composite
def _case(draw):
    dense = draw(st.sampled_from([True, True, False]))
    spec = draw(D.dataset_spec(dense=dense, raw=False, features=False, tfeatures=False,
                               naming='ks', max_nc=24 if dense else 10, curated=None,
                               probe_labels=True, scales=[1.0, 1.0, 1e-4, 1e-6, 1e-9, 300.0],
                               footprints=True))
    nc = spec['nc']
    explicit = [draw(st.lists(st.integers(0, nc - 1), min_size=1, max_size=min(nc, 5), unique=True))
                for _ in range(2)]
    return {'spec': spec, 'ncc': draw(st.integers(2, 12)), 'explicit': explicit,
            'scaling': draw(st.sampled_from([None, None, 2.0])),
            'default_thr': draw(st.sampled_from([None, None, 0.5, 0.3])),
            'cfg': draw(st.sampled_from(['instance', 'subclass']))}


def _many_channel_cases(th):
    # probes with 64..400 channels; whitening matrices whose determinant under- or overflows
    for i, (nc, wsc) in enumerate([(400, 0.1), (70, None)] + (
            [(384, 1.0), (400, 12.0), (64, 0.1), (129, 1e-3)] if th else [])):
        yield {'spec': D.many_channels_spec(nc, seed=i + 2, wm_scale=wsc, shanks=bool(i % 2)),
               'ncc': 12, 'explicit': [[0, nc - 1, nc // 2]], 'scaling': None, 'default_thr': None}


def drivers(tier):
    th = tier == 'thorough'
    return [dict(kind='enum', name='many-channels', exhaustive=False,
                 bound='64..400 channels', cases=lambda: _many_channel_cases(th)),
            dict(kind='hyp', name='records', strategy=_case(), examples=90000 if th else 8000)]


def _close(a, b, scale):
    return np.allclose(a, b, rtol=1e-5, atol=1e-5 * scale)


def check_dense_record(rec, U, pos, shanks, ncc, thr, what, info=None):
    """All clauses for an automatically selected dense record."""
    require(rec is not None, what + ': no record returned', key='no-record')
    o = O.DenseRecord(U, pos, shanks, ncc, thr)
    ch = np.asarray(rec.channel_ids).astype(np.int64)
    scale = float(np.max(np.abs(U))) or 1.0
    require(len(set(ch.tolist())) == len(ch), what + ': channel ids not distinct',
            key='dense-distinct', observed=ch)
    require(len(ch) >= 1, what + ': no channel', key='dense-empty')
    a = o.amp[ch]
    require(np.all(a[:-1] >= a[1:] - o.band), what + ': channels not by decreasing amplitude',
            key='dense-order', observed=(ch, a))
    require(a[0] >= o.max - o.band, what + ': first channel is not the peak channel',
            key='dense-peak-first', observed=(ch, a), expected=o.max)
    bc = int(rec.best_channel)
    require(o.amp[bc] >= o.max - o.band, what + ': best_channel is not a peak channel',
            key='dense-best', observed=bc, expected=o.peaks)
    tpl = np.asarray(rec.template)
    require(tpl.shape == (U.shape[0], len(ch)), what + ': template shape', key='dense-shape',
            observed=tpl.shape, expected=(U.shape[0], len(ch)))
    require(_close(tpl, U[:, ch], scale), what + ': column j is not the template on channel j',
            key='dense-columns', observed=tpl, expected=U[:, ch])
    amp = np.asarray(rec.amplitude)
    require(amp.shape == (len(ch),), what + ': amplitude vector length', key='dense-amp-len',
            observed=amp.shape, expected=len(ch))
    require(_close(amp, a, scale), what + ': amplitude[j] is not the ptp of column j',
            key='dense-amp-aligned', observed=amp, expected=a)
    # channel set: consistent with some admissible peak
    obs = set(ch.tolist())
    ok = False
    detail = None
    for peak in o.peaks:
        must, may, tie, slots = o.sets_for_peak(peak)
        if must <= obs <= may and len(obs & tie) <= max(slots, len(must & tie)):
            ok = True
            if info is not None:
                if len(may) < U.shape[1]:
                    info['restricted'] = True
                if len(obs) < len([c for c in may if True]) or thr not in (None, 0):
                    pass
            break
        detail = (sorted(must), sorted(may))
    require(ok, what + ': channel set is not the thresholded same-shank neighbourhood',
            key='dense-set', observed=sorted(obs), expected=detail)
    return o


def check(case):
    spec = case['spec']
    info = {'thr_removed': False, 'big_multi_shank': False, 'sparse_both': False}
    with env.scratch() as d:
        T = D.build(spec, d / 'ds')
        if case.get('cfg') == 'subclass':
            # neighbourhood size and default threshold configured on a subclass
            from phylib.io.model import TemplateModel, get_template_params
            attrs = {'n_closest_channels': case['ncc']}
            if case.get('default_thr') is not None:
                attrs['amplitude_threshold'] = case['default_thr']
            Model = type('Model', (TemplateModel,), attrs)
            m = must_return('TemplateModel()', lambda: Model(**get_template_params(T.params_path)))
        else:
            m = D.load(T, must_return)
        try:
            if case.get('cfg') != 'subclass':
                m.n_closest_channels = case['ncc']
            if case['scaling']:
                m.template_scaling = case['scaling']
            if case.get('default_thr') is not None and case.get('cfg') != 'subclass':
                m.amplitude_threshold = case['default_thr']     # the model's default threshold
            scal = case['scaling'] or 1.0
            wmi = D.wmi_of(T)
            nt, nc = spec['nt'], spec['nc']
            dense = spec['templates']['dense']
            if dense and T.shanks is not None and nc > case['ncc'] and len(set(spec['shanks'])) > 1:
                info['big_multi_shank'] = True
            for t in range(nt):
                for unwhiten in (True, False):
                    if dense:
                        U = O.unwhitened(T, t, wmi, unwhiten) * (scal if unwhiten else 1.0)
                        for thr in THRESHOLDS:
                            what = 'get_template(%d, thr=%r, unwhiten=%r)' % (t, thr, unwhiten)
                            rec = must_return(what, m.get_template, t, amplitude_threshold=thr,
                                              unwhiten=unwhiten)
                            eff = case.get('default_thr') if thr is None else thr
                            o = check_dense_record(rec, U, T.pos, T.shanks, case['ncc'], eff, what)
                            if thr in (0.3, 0.8):
                                full = must_return(what, m.get_template, t, amplitude_threshold=0,
                                                   unwhiten=unwhiten)
                                if len(full.channel_ids) > len(rec.channel_ids):
                                    info['thr_removed'] = True
                        for ex in case['explicit']:
                            exa = np.array(ex)
                            what = 'get_template(%d, channel_ids=%r)' % (t, ex)
                            rec = must_return(what, m.get_template, t, channel_ids=exa,
                                              unwhiten=unwhiten)
                            require(rec is not None, what + ': no record returned', key='no-record')
                            require(np.array_equal(rec.channel_ids, exa), what + ': channel_ids',
                                    key='explicit-ids', observed=rec.channel_ids, expected=ex)
                            require(_close(rec.template, U[:, exa], np.max(np.abs(U)) or 1.0),
                                    what + ': columns do not match the explicit list',
                                    key='explicit-columns', observed=rec.template,
                                    expected=U[:, exa])
                    else:
                        what = 'get_template(%d, unwhiten=%r) [sparse]' % (t, unwhiten)
                        rec = must_return(what, m.get_template, t, unwhiten=unwhiten)
                        require(rec is not None, what + ': no record returned', key='no-record')
                        cols = [int(c) for c in T.tcols[t]]
                        W = np.asarray(T.templates[t], dtype=np.float64)
                        keep, dontcare = O.sparse_kept(W, cols)
                        ch_exp = [cols[j] for j in keep]
                        if -1 in cols and spec['templates']['zero_cols'][t]:
                            info['sparse_both'] = True
                        ch = np.asarray(rec.channel_ids).astype(np.int64)
                        require(sorted(ch.tolist()) == sorted(ch_exp), what + ': channel set is '
                                'not stored minus unused minus signal-free', key='sparse-set',
                                observed=sorted(ch.tolist()), expected=sorted(ch_exp))
                        Wk = W[:, keep]
                        if unwhiten:
                            sub = wmi[np.ix_(ch_exp, ch_exp)]
                            Uk = (Wk @ sub) * scal
                        else:
                            Uk = Wk
                        col_of = {c: k for k, c in enumerate(ch_exp)}
                        order = [col_of[int(c)] for c in ch]
                        scale = float(np.max(np.abs(Uk))) or 1.0
                        a = O.ptp(Uk, axis=0)[order]
                        band = 1e-5 * (a.max() + scale)
                        require(_close(rec.template, Uk[:, order], scale),
                                what + ': column j is not the template on channel j',
                                key='sparse-columns', observed=rec.template, expected=Uk[:, order])
                        require(np.all(a[:-1] >= a[1:] - band),
                                what + ': channels not by decreasing amplitude', key='sparse-order',
                                observed=(ch, a))
                        amp = np.asarray(rec.amplitude)
                        require(amp.shape == a.shape and _close(amp, a, scale),
                                what + ': amplitude[j] is not the ptp of column j',
                                key='sparse-amp-aligned', observed=amp, expected=a)
                        bc = int(rec.best_channel)
                        require(bc in col_of and O.ptp(Uk, axis=0)[col_of[bc]] >= a.max() - band,
                                what + ': best_channel is not the peak channel', key='sparse-best',
                                observed=bc)
                # convenience accessors agree with the record
                rec = must_return('get_template', m.get_template, t)
                chs = must_return('get_template_channels', m.get_template_channels, t)
                require(np.array_equal(chs, rec.channel_ids), 'get_template_channels differs',
                        key='accessor-channels', observed=chs, expected=rec.channel_ids)
                wv = must_return('get_template_waveforms', m.get_template_waveforms, t)
                require(np.array_equal(wv, rec.template), 'get_template_waveforms differs',
                        key='accessor-waveforms')
            for c in sorted(set(int(x) for x in T.spike_clusters)):
                ids = [i for i, x in enumerate(T.spike_clusters) if int(x) == c]
                doms, _ = O.dominant_templates(T.spike_templates, ids)
                got = must_return('get_cluster_channels', m.get_cluster_channels, c)
                cands = [must_return('get_template', m.get_template, t).channel_ids for t in doms]
                require(any(np.array_equal(got, x) for x in cands),
                        'get_cluster_channels is not the channel list of a dominant template',
                        key='cluster-channels', observed=got, expected=cands)
        finally:
            m.close()
    return info


def classify(case, info):
    s = case['spec']
    dense = s['templates']['dense']
    labels = ['dense' if dense else 'sparse', 'ncc:%d' % case['ncc']]
    nt = False
    if dense and s['nc'] > case['ncc']:
        labels.append('more-channels-than-neighbourhood')
    if dense and s['nc'] < case['ncc']:
        labels.append('fewer-channels-than-neighbourhood')
    if info['big_multi_shank']:
        labels.append('multi-shank-restricted')
        nt = True
    if info['thr_removed']:
        labels.append('threshold-removes-channel')
        nt = True
    if info['sparse_both']:
        labels.append('sparse-minus1-and-zero-column')
        nt = True
    if s['wm']:
        labels.append('whitened')
    if s['templates']['int']:
        labels.append('integer-valued (amplitude ties)')
    if case['scaling']:
        labels.append('template_scaling')
    labels.append('configured-on:' + case.get('cfg', 'instance'))
    if s['templates'].get('scale', 1.0) != 1.0:
        labels.append('waveform-units:%g' % s['templates']['scale'])
    if any(s['templates'].get('faint_cols') or []):
        labels.append('faint-stored-channel')
    if s['nc'] >= 64:
        labels.append('>=64-channels')
    return labels, nt
