# -*- coding: utf-8 -*-
"""C07, model level: per-cluster / per-template spike queries and template histograms."""

import numpy as np
from hypothesis import strategies as st

from .. import env, datasets as D
from ..core import require, must_return, as_int_kind

env.import_phylib()


@st.composite
def strategy(draw):
    spec = draw(D.dataset_spec(raw=False, features=False, tfeatures=False))
    ns = spec['ns']
    edits = draw(st.lists(st.tuples(st.integers(0, ns - 1), st.integers(0, 12)), max_size=4))
    return {'k': 'model', 'spec': spec, 'extra_ids': draw(st.lists(st.integers(0, 30), max_size=3)),
            'edits': [list(e) for e in edits]}


def check(case):
    spec = case['spec']
    with env.scratch() as d:
        T = D.build(spec, d / 'ds')
        m = D.load(T, must_return)
        try:
            st_ = [int(x) for x in T.spike_templates]
            sc = [int(x) for x in T.spike_clusters]
            nt = spec['nt']
            _queries(m, st_, sc, nt, case)
            # the in-memory copy of spike_clusters is meant to be updated during manual
            # clustering: after an in-place edit the queries describe the edited vector
            if case.get('edits'):
                for i, c in case['edits']:
                    m.spike_clusters[i] = c
                    sc[i] = c
                _queries(m, st_, sc, nt, case)
        finally:
            m.close()
    return {}


def _queries(m, st_, sc, nt, case):
    seen = []
    for c in sorted(set(sc) | set(case['extra_ids'])):
        salt = len(sc) + case['spec']['seed']
        # the id is a Python int, a NumPy integer of some width or a 0-d array
        got = must_return('get_cluster_spikes', m.get_cluster_spikes, as_int_kind(c, c + salt))
        exp = [i for i, x in enumerate(sc) if x == c]
        require(np.asarray(got).tolist() == exp, 'get_cluster_spikes(%d)' % c,
                key='model-cluster-spikes', observed=got, expected=exp)
        seen.extend(exp)
        cnt = must_return('get_template_counts', m.get_template_counts,
                          as_int_kind(c, c + salt + 3))
        e = [sum(1 for i in exp if st_[i] == t) for t in range(nt)]
        require(np.asarray(cnt).tolist() == e, 'get_template_counts(%d) is not the '
                'per-template histogram of length n_templates' % c,
                key='model-template-counts', observed=cnt, expected=e)
    require(sorted(seen) == list(range(len(sc))), 'cluster queries do not partition the spikes',
            key='model-partition')
    for t in sorted(set(range(nt)) | set(case['extra_ids'])):
        got = must_return('get_template_spikes', m.get_template_spikes,
                          as_int_kind(t, t + len(sc) + case['spec']['seed'] + 5))
        exp = [i for i, x in enumerate(st_) if x == t]
        require(np.asarray(got).tolist() == exp, 'get_template_spikes(%d)' % t,
                key='model-template-spikes', observed=got, expected=exp)


def classify(case, info):
    s = case['spec']
    labels = ['model', 'model:' + ('curated' if s['curation'] else 'un-curated')]
    if case.get('edits'):
        labels.append('model:in-place-edit-then-requery')
    return labels, bool(s['curation']) or s['tmpl_dtype'].startswith('u')
