# -*- coding: utf-8 -*-
"""C02 - lazy reader expressions commute with eager NumPy evaluation."""

import numpy as np
from hypothesis import strategies as st

from .. import env, core, strategies as S
from ..core import require, must_return, same_array, Violation, Reject

env.import_phylib()
from phylib.io.traces import BaseEphysReader  # noqa: E402

ID = 'C02'
LEVEL = 'exploration'
RULE = (
    "Hypothesis: a layout (all backends / sample dtypes / multi-file / header offsets as in C01) "
    "and a derivation tree: up to 7 (quick: 5) nodes, node k>0 = (parent index < k, op, arg) with "
    "op in {pos, neg, add, radd, sub, rsub, mul, rmul, truediv, rtruediv, floordiv, rfloordiv, "
    "pow, rpow, cols} and scalars from {-3..3, 0.5, -2.5, 2.0, +-1000, 30000, 200} (one node in three repeats its parent's operator, half of these also its operand); chains reach depth 7 "
    "(quick: 4). Then a generated read schedule: (node, row expression[, column selector]) "
    "triples in any order; the root is additionally read first and last. Oracle: the same Python "
    "operator expression applied to the fully loaded array, then NumPy indexing; shape and "
    "dtype exact, values exact for integer results and within 16 ulp (NaN-aware) for floating "
    "results (NumPy's SIMD and scalar float loops differ in the last bit); every derived object is a BaseEphysReader. Expressions "
    "NumPy itself rejects on the full array (negative integer powers, out-of-range Python ints) "
    "are rejected and counted. Non-trivial: a reflected operator, or an integer dtype with / // "
    "**, or a cols op that is not last in its chain, or a node with >=2 children, or a grandchild."
    " Later additions: single-channel selections, column selectors as the caller's own arrays (un"
    'changed afterwards), results held and re-compared after later reads, relative paths + chdir '
    'before deriving, hand-made blocks beyond 2**16/2**18 (thorough 2**20) rows.')
# the arithmetic is NumPy's: under a raising floating-point error state NumPy itself raises (0 ** -1,
# 0 / 0), so the lazy and the eager side are compared under the default error state
AMBIENT_EXCLUDE = {'fp': 'reader arithmetic follows the NumPy error state by design', 'warn':
                   'NumPy emits RuntimeWarnings for the same expressions on the eager side'}
ASSUMPTIONS = ['NumPy operator semantics (NEP 50 promotion) define "eager"']

BINOPS = ['add', 'radd', 'sub', 'rsub', 'mul', 'rmul', 'truediv', 'rtruediv', 'floordiv',
          'rfloordiv', 'pow', 'rpow']
UNOPS = ['pos', 'neg']
SCALARS = [-3, -2, -1, 0, 1, 2, 3, 0.5, -2.5, 2.0, 1000, -1000, 30000, 200,
           # NumPy scalars keep their own dtype in NumPy 2 promotion
           {'np': 'float32', 'v': 0.5}, {'np': 'float64', 'v': 0.1}, {'np': 'int32', 'v': 3},
           {'np': 'int16', 'v': -2}, {'np': 'uint8', 'v': 2}]

PY = {
    'pos': lambda x, a: +x, 'neg': lambda x, a: -x,
    'add': lambda x, a: x + a, 'radd': lambda x, a: a + x,
    'sub': lambda x, a: x - a, 'rsub': lambda x, a: a - x,
    'mul': lambda x, a: x * a, 'rmul': lambda x, a: a * x,
    'truediv': lambda x, a: x / a, 'rtruediv': lambda x, a: a / x,
    'floordiv': lambda x, a: x // a, 'rfloordiv': lambda x, a: a // x,
    'pow': lambda x, a: x ** a, 'rpow': lambda x, a: a ** x,
}


@st.composite
def _case(draw, max_nodes, max_depth):
    lay = draw(S.layout(max_n=40))
    n, nch = lay['n'], lay['nch']
    nnodes = draw(st.integers(1, max_nodes))
    nodes = []
    depth = [0]
    width = [nch]
    chain = draw(st.booleans())  # deep chain vs bushy tree
    for k in range(1, nnodes + 1):
        parent = k - 1 if chain else draw(st.integers(0, k - 1))
        if depth[parent] >= max_depth:
            parent = 0
        op = draw(st.sampled_from(BINOPS + UNOPS + ['cols', 'cols']))
        same_arg = False
        if parent >= 1 and draw(st.integers(0, 2)) == 0:
            op = nodes[parent - 1][1]        # repeat the parent's operator (x + a + b, x * a * b)
            same_arg = draw(st.booleans())   # ... half of the time with the same operand
        if op == 'cols' and width[parent] == 0:
            op = draw(st.sampled_from(BINOPS + UNOPS))   # one channel was selected: 1-D from here
        if op == 'cols':
            if draw(st.integers(0, 4)) == 0:
                mask = draw(st.lists(st.booleans(), min_size=width[parent], max_size=width[parent]))
                if not any(mask):
                    mask[0] = True
                arg = {'t': 'mask', 'v': mask}       # boolean channel mask
            else:
                arg = draw(S.col_selector(width[parent]).filter(lambda c: c is not None))
            w = 0 if arg['t'] == 'int' else len(np.arange(width[parent])[_cols(arg)])
        elif op in UNOPS:
            arg, w = None, width[parent]
        else:
            arg, w = draw(st.sampled_from(SCALARS)), width[parent]
            if same_arg and nodes[parent - 1][1] == op and nodes[parent - 1][2] is not None:
                arg = nodes[parent - 1][2]
            if op.startswith('r') and isinstance(arg, dict):
                # a NumPy scalar on the LEFT reaches the reflected method as a plain Python scalar
                # (NumPy's own dispatch), so its dtype cannot take part; use its value only
                arg = arg['v']
        nodes.append([parent, op, arg])
        depth.append(depth[parent] + 1)
        width.append(w)
    allow_list = lay['backend'] != 'cbin'
    bounds = list(np.cumsum(lay['parts']))
    reads = []
    for _ in range(draw(st.integers(1, 8))):
        k = draw(st.integers(0, nnodes))
        c = draw(st.none() | S.col_selector(width[k])) if width[k] else None
        reads.append([k, draw(S.row_expr(n, bounds, allow_list=allow_list)), c])
    return {'lay': lay, 'nodes': nodes, 'reads': reads}


def _large_cases(th):
    # blocks longer than any internal batch one would pick (2**16, 2**18, 2**20 rows)
    sizes = [65536 + 24464, 2 ** 18 + 5] + ([2 ** 20 + 3, 3 * 2 ** 16 + 100] if th else [])
    for i, n in enumerate(sizes):
        for backend in ('flat', 'array'):
            parts = [n // 3, n - n // 3] if backend == 'flat' else [n]
            lay = {'n': n, 'nch': 3, 'dtype': ['int16', 'float32'][i % 2], 'backend': backend,
                   'parts': parts, 'offset': 0, 'chunk': n // 4 + 1, 'salt': i}
            nodes = [[0, 'mul', 2], [1, 'cols', {'t': 'list', 'v': [2, 0]}], [2, 'add', 0.5],
                     [0, 'neg', None]]
            reads = [[3, {'t': 'slice', 'a': None, 'b': None}, None],
                     [1, {'t': 'slice', 'a': 1, 'b': n - 1}, {'t': 'rev'}],
                     [4, {'t': 'list', 'v': list(range(0, n, 5)), 'as': 'int64'}, None],
                     [2, {'t': 'slice', 'a': -(2 ** 16 + 9), 'b': None}, None]]
            yield {'lay': lay, 'nodes': nodes, 'reads': reads}


def drivers(tier):
    th = tier == 'thorough'
    return [dict(kind='enum', name='large', exhaustive=False,
                 bound='requests of more than 2**16 / 2**18 (thorough: 2**20) rows',
                 cases=lambda: _large_cases(th)),
            dict(kind='hyp', name='programs',
                 strategy=_case(7, 7) if th else _case(5, 4),
                 examples=300000 if th else 20000)]


def _same(what, out, exp, key):
    """Exact for integer results; a few ulps for floating results.

    NumPy's float loops (pow, divide) take SIMD or scalar code paths depending on the length and
    strides of the block they are given, and the two paths can differ in the last bit, so the
    same expression evaluated on the whole array and on the rows that were read need not be
    bit-identical.  Shape and dtype stay exact."""
    exp = np.asarray(exp)
    if exp.dtype.kind in 'fc':
        eps = np.finfo(exp.dtype).eps
        same_array(what, out, exp, key=key, tol=(16 * eps, float(np.finfo(exp.dtype).tiny) * 16))
    else:
        same_array(what, out, exp, key=key)


def _scalar(arg):
    if isinstance(arg, dict) and 'np' in arg:
        return np.dtype(arg['np']).type(arg['v'])
    return arg


INPUT_ARRAYS = []    # (array handed to the code under test, pristine copy), per case


def _cols(arg):
    if isinstance(arg, dict) and arg.get('t') == 'mask':
        a = np.array(arg['v'], dtype=bool)
    else:
        a = S.to_cols(arg)
    if isinstance(a, np.ndarray):
        INPUT_ARRAYS.append((a, a.copy()))
    return a


def _derive(obj, op, arg):
    if op == 'cols':
        return obj[:, _cols(arg)]
    return PY[op](obj, _scalar(arg))


def check(case):
    lay = case['lay']
    del INPUT_ARRAYS[:]
    with S.OpenReader(lay, must_return) as o:
        root, A = o.reader, o.A
        # eager side first: decides whether the program is defined at all
        eager = [A]
        with np.errstate(all='ignore'):
            for parent, op, arg in case['nodes']:
                try:
                    eager.append(_derive(eager[parent], op, arg))
                except Exception as e:
                    raise Reject('eager expression undefined: %s' % type(e).__name__)
        lazy = [root]
        first = must_return('root[:]', lambda: root[:])
        same_array('root[:] before deriving', first, A, key='root-before')
        for k, (parent, op, arg) in enumerate(case['nodes'], 1):
            child = must_return('derive %s' % op, _derive, lazy[parent], op, arg)
            require(isinstance(child, BaseEphysReader), 'derived object (%s) is not a reader' % op,
                    key='not-reader', observed=type(child))
            require(child is not lazy[parent], 'derivation returned the parent itself',
                    key='same-object')
            lazy.append(child)
        held = []       # results already handed out: a later read must not change them
        with np.errstate(all='ignore'):
            for k, e, c in case['reads']:
                rows = S.to_rows(e)
                exp = S.numpy_rows(eager[k], e)
                what = 'node%d[%r]' % (k, rows)
                if c is None:
                    out = must_return(what, lambda: lazy[k][rows])
                else:
                    cols = _cols(c)
                    exp = exp[:, S.to_cols(c)]
                    what = 'node%d[%r, %r]' % (k, rows, cols)
                    out = must_return(what, lambda: lazy[k][rows, cols])
                    if isinstance(out, BaseEphysReader):
                        out = must_return(what + '[:]', lambda: out[:])
                _same(what, out, exp, 'node-values')
                held.append((what, out, np.array(exp, copy=True)))
                if len(held) >= 2 and isinstance(e, dict) and e.get('t') == 'slice':
                    # the same rows shifted by one (same shape): a recycled buffer would show
                    a, b, _ = slice(e['a'], e['b'], e.get('step')).indices(lay['n'])
                    if b < lay['n'] and a < b:
                        must_return(what + ' (shifted)', lambda: lazy[k][a + 1:b + 1])
            for what, out, exp in held:
                _same(what + ' (result held by the caller, after later reads)', out, exp,
                      'held-result-changed')
            # the root again, after all derivations and reads
            last = must_return('root[:]', lambda: root[:])
            same_array('root[:] after deriving', last, A, key='root-after')
            for k in range(1, len(lazy)):
                out = must_return('node%d[:]' % k, lambda: lazy[k][:])
                _same('node%d[:] (all nodes re-read at the end)' % k, out, eager[k],
                      'node-values-final')
            # index / mask arrays handed over by the caller are inputs only
            for a, orig in INPUT_ARRAYS:
                require(np.array_equal(a, orig), 'a channel index array of the caller was '
                        'modified', key='input-mutated', observed=a, expected=orig)
    return None


def classify(case, info):
    lay = case['lay']
    nodes = case['nodes']
    labels = ['backend:' + lay['backend'], 'nodes:%d' % len(nodes)]
    nt = False
    if lay['n'] > 65536:
        labels.append('more-than-2**16-rows')
    if any(op.startswith('r') and op != 'rpow' or op == 'rpow' for _, op, _ in nodes):
        labels.append('reflected-op')
        nt = True
    if lay['dtype'] in ('int16', 'int32', 'uint8') and any(
            op in ('truediv', 'rtruediv', 'floordiv', 'rfloordiv', 'pow', 'rpow')
            for _, op, _ in nodes):
        labels.append('int-div-pow')
        nt = True
    parents = [p for p, _, _ in nodes]
    for k, (p, op, _) in enumerate(nodes, 1):
        if op == 'cols' and k in parents:
            labels.append('cols-not-last')
            nt = True
            break
    if len(parents) != len(set(parents)):
        labels.append('siblings')
        nt = True
    if any(p > 0 for p in parents):
        labels.append('grandchild')
        nt = True
    if any(isinstance(a, float) for _, _, a in nodes):
        labels.append('float-scalar')
    if any(isinstance(a, dict) and 'np' in a for _, _, a in nodes):
        labels.append('numpy-scalar-operand')
    if any(isinstance(a, dict) and a.get('t') == 'mask' for _, _, a in nodes):
        labels.append('boolean-channel-mask')
    if any(isinstance(a, dict) and a.get('t') == 'int' for _, _, a in nodes):
        labels.append('single-channel-selection')
    return sorted(set(labels)), nt
