# -*- coding: utf-8 -*-
"""C01 - raw-data reader indexing equals NumPy indexing of the concatenated recording."""

import numpy as np
from hypothesis import strategies as st

from .. import env, core, strategies as S
from ..core import require, must_return, same_array, Violation

env.import_phylib()
from phylib.io.traces import BaseEphysReader  # noqa: E402

ID = 'C01'
LEVEL = 'exploration'
RULE = (
    "A case is one storage layout plus a list of index expressions. (small) exhaustive: for every "
    "n<=6 (quick) / <=8 (thorough), every composition of n into flat files (header offsets and "
    "sample dtypes cycling over {0,1,7,16} x {int16,int32,uint8,float32,float64,>i2,>f4}, file names in "
    "ascending, descending or run_8/run_9/run_10 lexicographic order) "
    " plus single-part "
    "array/npy/cbin layouts, EVERY integer in [-n,n), EVERY non-empty unit-step slice with bounds "
    "in [-n,n] or None, EVERY non-empty strictly increasing index set (as list/int64/int32/uint32 "
    "array; not on cbin) x EVERY column selector of {none, slice, reversed slice, index list, "
    "permutation}. (rand) Hypothesis: n<=64, <=5 files, offsets up to 31 bytes (not multiples of "
    "the item size), 1-5 channels, 12 expressions per layout with bounds biased to part boundaries "
    "+-1. Oracle: NumPy indexing of np.concatenate(parts) (an int selects one row, 2-D), then "
    "[:, cols]; values, shape and dtype exact; reader.shape/n_samples/n_channels/dtype/duration/"
    "part_bounds. Non-trivial layout: >=2 files, or a header offset, or cbin backend; the class "
    "histogram counts expressions that cross a file boundary / use negative bounds / combine an "
    "index array with a column selector."
    " Later additions: negative and single-channel column selectors (lists and the caller's own i"
    'nt32/int64 arrays, compared with a pristine copy afterwards); the same file names re-written'
    ' with another recording; relative paths followed by a change of directory into a folder with'
    ' equally named files; Fortran-ordered .npy; one-element path lists; the n_channels_dat/dtype'
    '/offset keywords of a params file on .npy / in-memory data; parts with different raw extensi'
    'ons; the same file name in several folders; float recordings with NaN/inf; an out-of-range r'
    'equest before a valid one; results held by the caller re-compared after later reads; hand-ma'
    'de requests beyond 2**16/2**18 (thorough 2**20) rows and a sparse file of 2**31+40 (thorough'
    ' 2**32+40) samples.')
ASSUMPTIONS = ['mtscomp as codec (integer-valued samples are lossless)']

OFFSETS = [0, 1, 7, 16]


def _small_cases(N):
    k = 0
    for n in range(1, N + 1):
        for parts in S.compositions(n):
            k += 1
            yield {'mode': 'all', 'lay': {
                'n': n, 'nch': 3, 'dtype': (S.SAMPLE_DTYPES + S.BIG_ENDIAN_DTYPES)[k % 7],
                'backend': 'flat',
                'parts': parts, 'offset': OFFSETS[(k // 5) % 4], 'chunk': 1 + k % (n + 2),
                'salt': k % 7, 'ext': ['.dat', '.bin', '.raw', 'mixed'][k % 4],
                'names': ['asc', 'desc', 'num'][(k // 3) % 3]}}
        for backend in ('array', 'npy', 'cbin'):
            k += 1
            lay = {'n': n, 'nch': 3, 'dtype': ['int16', 'int32', 'float32'][k % 3],
                   'backend': backend, 'parts': [n], 'offset': 0, 'chunk': 1 + k % (n + 2),
                   'salt': k % 7}
            if backend == 'cbin':
                lay['n_threads'] = 1 + k % 3
                lay['open'] = ['path', 'reader'][k % 2]
            yield {'mode': 'all', 'lay': lay}


@st.composite
def _rand_case(draw):
    lay = draw(S.layout(big_endian=True))
    n = lay['n']
    bounds = list(np.cumsum(lay['parts']))
    allow_list = lay['backend'] != 'cbin'
    exprs = []
    for _ in range(12):
        ex = [draw(S.row_expr(n, bounds, allow_list=allow_list)),
              draw(S.col_selector(lay['nch']))]
        if draw(st.integers(0, 5)) == 0:
            # a request NumPy rejects as well (row or channel out of range) comes first; whatever
            # the reader answers, the valid request after it must not be affected
            ex.append({'row': draw(st.sampled_from([n, n + 3, -n - 1, 0])),
                       'col': draw(st.sampled_from([None, lay['nch'], -lay['nch'] - 1,
                                                    [0, lay['nch'] + 2]]))})
        exprs.append(ex)
    return {'mode': 'exprs', 'lay': lay, 'exprs': exprs}


@st.composite
def _rewrite_case(draw):
    """The same file names hold a different recording later in the same process."""
    lay = draw(S.layout(max_n=24, big_endian=True))
    n2 = draw(st.integers(1, 30).filter(lambda x: x != lay['n']))
    lay2 = dict(lay, n=n2, salt=lay['salt'] + 1)
    k = len(lay['parts'])
    if n2 < k:
        n2 = lay2['n'] = k + draw(st.integers(0, 3))
    lay2['parts'] = draw(S.composition(n2, k).filter(lambda p: len(p) == k)) if k > 1 else [n2]
    lay2['chunk'] = draw(st.integers(1, n2 + 3))
    return {'mode': 'rewrite', 'lay': lay, 'lay2': lay2}


def _large_cases(th):
    # requests longer than any internal block size one would pick (2**16, 2**18, 2**20 rows)
    sizes = [65536 + 24464, 2 ** 18 + 5] + ([2 ** 20 + 3, 3 * 2 ** 16 + 100] if th else [])
    for i, n in enumerate(sizes):
        for backend in ('flat', 'npy'):
            parts = [n // 3, n - n // 3] if backend == 'flat' else [n]
            lay = {'n': n, 'nch': 2, 'dtype': 'int16', 'backend': backend, 'parts': parts,
                   'offset': 0, 'chunk': n // 4 + 1, 'salt': i}
            yield {'mode': 'exprs', 'lay': lay, 'exprs': [
                [{'t': 'slice', 'a': None, 'b': None}, None],
                [{'t': 'slice', 'a': 1, 'b': n - 1}, {'t': 'rev'}],
                [{'t': 'list', 'v': list(range(0, n, 3)), 'as': 'int64'}, {'t': 'list', 'v': [1]}],
                [{'t': 'slice', 'a': -(2 ** 16 + 9), 'b': None}, None]]}


def _huge_cases(th):
    # recordings of more than 2**31 (thorough: 2**32) samples - 20 h at 30 kHz - as sparse files
    for i, n in enumerate([2 ** 31 + 40] + ([2 ** 32 + 40] if th else [])):
        yield {'mode': 'huge', 'n': n, 'salt': i}


def _check_huge(case):
    from phylib.io.traces import get_ephys_reader
    from .. import rec
    n = case['n']
    with env.scratch() as d:
        try:
            R = rec.SparseRecording(d, n, nch=2, dtype='int16', block=64, salt=case['salt'])
        except OSError as e:
            raise core.Reject('the scratch file system cannot hold a sparse file of this size: %s' % e)
        r = must_return('get_ephys_reader', get_ephys_reader, R.path, n_channels=2,
                        dtype=np.int16, sample_rate=30000.)
        try:
            require(tuple(r.shape) == (n, 2) and int(r.n_samples) == n, 'shape of a recording '
                    'of more than 2**31 samples', key='meta-shape', observed=r.shape,
                    expected=(n, 2))
            b = n - 64          # first row of the written tail (= 2**31 - 24 or 2**32 - 24)
            for what, idx, rows in (
                    ('reader[n - 1]', n - 1, [n - 1]), ('reader[-3]', -3, [n - 3]),
                    ('reader[b + 30]', b + 30, [b + 30]),
                    ('reader[b - 2:b + 5]', slice(b - 2, b + 5), range(b - 2, b + 5)),
                    ('reader[-5:]', slice(-5, None), range(n - 5, n)),
                    ('reader[[3, b, b + 25, n - 1]]', [3, b, b + 25, n - 1],
                     [3, b, b + 25, n - 1]),
                    ('reader[int64 array]', np.array([0, 63, b + 24, b + 25, n - 2]),
                     [0, 63, b + 24, b + 25, n - 2]),
                    ('reader[uint64 array]', np.array([5, b + 40], dtype=np.uint64),
                     [5, b + 40])):
                out = must_return(what, lambda: r[idx])
                same_array(what + ' (recording of %d samples)' % n, out, R.rows(list(rows)),
                           key='values:huge')
            out = must_return('reader[rows, [1]]', lambda: r[[b + 1, n - 1], [1]])
            same_array('reader[[b + 1, n - 1], [1]]', out, R.rows([b + 1, n - 1])[:, [1]],
                       key='values:huge')
        finally:
            for m in getattr(r, '_mmaps', []) or []:
                m._mmap.close()
    return {'exprs': 9, 'cross': 0, 'neg': 2, 'arr+cols': 1}


def drivers(tier):
    th = tier == 'thorough'
    return [
        dict(kind='enum', name='huge', exhaustive=False,
             bound='a sparse flat file of 2**31 + 40 (thorough: 2**32 + 40) samples',
             cases=lambda: _huge_cases(th)),
        dict(kind='enum', name='large', exhaustive=False,
             bound='requests of more than 2**16 / 2**18 (thorough: 2**20) rows',
             cases=lambda: _large_cases(th)),
        dict(kind='hyp', name='rewrite', strategy=_rewrite_case(), examples=6000 if th else 600),
        dict(kind='enum', name='small', exhaustive=True,
             bound='n<=%d, all compositions, all index expressions x 5 column selectors' %
                   (8 if th else 6),
             cases=lambda: _small_cases(8 if th else 6)),
        dict(kind='hyp', name='rand', strategy=_rand_case(), examples=150000 if th else 10000),
    ]


def _check_expr(reader, A, e, c, stats):
    rows = S.to_rows(e)
    exp = S.numpy_rows(A, e)
    if c is None:
        what = 'reader[%r]' % (rows,)
        out = must_return(what, lambda: reader[rows])
    else:
        cols = S.to_cols(c)
        exp = exp[:, S.to_cols(c)]
        what = 'reader[%r, %r]' % (rows, cols)
        out = must_return(what, lambda: reader[rows, cols])
        if isinstance(out, BaseEphysReader):
            # reader[:, cols] is the documented lazy whole-recording selection; evaluate it
            require(e['t'] == 'slice' and e['a'] is None and e['b'] is None,
                    '%s returned a reader for a partial row selection' % what, key='lazy-misuse')
            out = must_return(what + '[:]', lambda: out[:])
    require(isinstance(out, np.ndarray), '%s is not an array' % what, key='not-array',
            observed=type(out))
    if c is not None and isinstance(cols, np.ndarray):
        require(np.array_equal(cols, S.to_cols(c)), 'the channel index array of the caller was '
                'modified', key='input-mutated', observed=cols, expected=S.to_cols(c))
    # (np.concatenate normalises a non-native byte order, so the dtype is compared modulo byte
    # order: same kind and width, same values)
    exp = exp.astype(exp.dtype.newbyteorder('='))
    out_n = out.astype(out.dtype.newbyteorder('=')) if isinstance(out, np.ndarray) else out
    same_array(what, out_n, exp, key='values:' + e['t'] + ('+cols' if c is not None else ''))
    held = stats.setdefault('_held', [])
    if len(held) < 6:
        held.append((what, out, np.array(exp, copy=True)))
    if isinstance(rows, np.ndarray):
        # NumPy indexing has no side effect on the index: the same index object must select the
        # same rows when it is used again
        again = must_return(what + ' (same index object, second use)', lambda: reader[rows])
        same_array(what + ' (same index object, second use)',
                   again.astype(again.dtype.newbyteorder('=')),
                   S.numpy_rows(A, e).astype(A.dtype.newbyteorder('=')), key='values:index-reused')
    stats['exprs'] += 1


def _check_rewrite(case):
    """A reader created after the files were replaced describes the new files."""
    stats = {'exprs': 0, 'cross': 0, 'neg': 0, 'arr+cols': 0}
    with env.scratch() as d:
        for lay in (case['lay'], case['lay2']):
            with S.OpenReader(lay, must_return, dirpath=d) as o:
                r, A = o.reader, o.A
                require(tuple(r.shape) == A.shape, 'shape of a reader on re-written files',
                        key='meta-shape', observed=r.shape, expected=A.shape)
                out = must_return('reader[:]', lambda: r[:])
                same_array('reader[:] on re-written files',
                           out.astype(out.dtype.newbyteorder('=')),
                           A.astype(A.dtype.newbyteorder('=')), key='values:slice')
                del r, out
    return stats


def check(case):
    if case['mode'] == 'rewrite':
        return _check_rewrite(case)
    if case['mode'] == 'huge':
        return _check_huge(case)
    lay = case['lay']
    n = lay['n']
    stats = {'exprs': 0, 'cross': 0, 'neg': 0, 'arr+cols': 0}
    with S.OpenReader(lay, must_return) as o:
        r, A = o.reader, o.A
        require(isinstance(r, BaseEphysReader), 'not a reader', key='type')
        # metadata
        require(tuple(r.shape) == A.shape, 'shape', key='meta-shape', observed=r.shape,
                expected=A.shape)
        require(int(r.n_samples) == n and int(r.n_channels) == lay['nch'], 'n_samples/n_channels',
                key='meta-n', observed=(r.n_samples, r.n_channels), expected=A.shape)
        require(np.dtype(r.dtype).newbyteorder('=') == A.dtype.newbyteorder('='), 'dtype',
                key='meta-dtype', observed=r.dtype, expected=A.dtype)
        require(abs(float(r.duration) - n / o.sample_rate) <= 1e-9 * (n / o.sample_rate),
                'duration', key='meta-duration', observed=r.duration, expected=n / o.sample_rate)
        if lay['backend'] == 'flat':
            require([int(x) for x in r.part_bounds] == [0] + np.cumsum(lay['parts']).tolist(),
                    'part_bounds', key='meta-part-bounds', observed=list(r.part_bounds))
        else:
            require([int(x) for x in r.part_bounds] == [0, n], 'part_bounds',
                    key='meta-part-bounds', observed=list(r.part_bounds))
        if case['mode'] == 'all':
            cols = S.all_col_selectors(lay['nch'])
            exprs = [(e, c) for e in S.all_row_exprs(n)
                     if not (lay['backend'] == 'cbin' and e['t'] == 'list') for c in cols]
        else:
            exprs = [tuple(x) for x in case['exprs']]
        edges = set(np.cumsum(lay['parts']).tolist()[:-1])
        for ex in exprs:
            e, c = ex[0], ex[1]
            bad = ex[2] if len(ex) > 2 else None
            if bad is not None and not (bad['row'] == 0 and bad['col'] is None):
                try:
                    r[bad['row']] if bad['col'] is None else r[bad['row'], bad['col']]
                except Exception:
                    pass
                stats['after-rejected'] = stats.get('after-rejected', 0) + 1
            try:
                _check_expr(r, A, e, c, stats)
            except Violation as v:
                v.case = {'mode': 'exprs', 'lay': lay,
                          'exprs': [[e, c] + ([bad] if bad is not None else [])]}
                raise
            touched = S.rows_touched(n, e)
            if len(set(np.searchsorted(sorted(edges), touched, side='right').tolist())) > 1:
                stats['cross'] += 1
            if (e['t'] == 'int' and e['v'] < 0) or (e['t'] == 'slice' and (
                    (e['a'] or 0) < 0 or (e['b'] or 0) < 0)):
                stats['neg'] += 1
            if e['t'] == 'list' and e.get('as') != 'list' and c is not None:
                stats['arr+cols'] += 1
        # results handed out earlier are the caller's: later reads must not have changed them
        for what, out, exp in stats.pop('_held', []):
            same_array(what + ' (result held by the caller, after later reads)',
                       out.astype(out.dtype.newbyteorder('=')), exp, key='held-result-changed')
        # lists are the decoder's carve-out on compressed files only
        if lay['backend'] == 'cbin' and n >= 2:
            try:
                out = r[[0, n - 1]]
                same_array('cbin reader[list]', out, A[[0, n - 1]], key='values:list')
            except NotImplementedError:
                stats['carve-out'] = 1
            except Exception as ex:
                raise Violation('cbin reader[list] raised %s' % type(ex).__name__,
                                key='cbin-list-raises')
    if core.RUN is not None:
        core.RUN.steps += stats['exprs']
    return stats


def classify(case, info):
    if case['mode'] == 'huge':
        return ['huge:%d-samples' % case['n'], 'backend:flat'], True
    lay = case['lay']
    labels = ['backend:' + lay['backend'], 'dtype:' + lay['dtype'], 'mode:' + case['mode']]
    nt = case['mode'] == 'rewrite'
    if lay['n'] > 65536:
        labels.append('more-than-2**16-rows')
    if len(lay['parts']) >= 2:
        labels.append('multi-file')
        nt = True
    if lay['offset']:
        labels.append('offset')
        nt = True
        if lay['offset'] % np.dtype(lay['dtype']).itemsize:
            labels.append('offset-unaligned')
    if lay['backend'] == 'cbin':
        nt = True
    if info['cross']:
        labels.append('expr-crosses-file-boundary')
    if info['neg']:
        labels.append('expr-negative-bound')
    if info['arr+cols']:
        labels.append('expr-array+cols')
    if info.get('after-rejected'):
        labels.append('valid-request-after-a-rejected-one')
    if lay.get('relpath'):
        labels.append('relative-paths-then-chdir')
    if lay.get('fortran'):
        labels.append('fortran-ordered-npy')
    if lay.get('params_kw'):
        labels.append('opened-with-params-keywords')
    return labels, nt
