# -*- coding: utf-8 -*-
"""C09 - amplitude, depth, duration and peak-channel summaries follow their definitions."""

import numpy as np
from hypothesis import strategies as st

from .. import env, core, datasets as D, oracles as O
from ..core import require, must_return, same_array, Violation

env.import_phylib()

ID = 'C09'
LEVEL = 'exploration'
RULE = (
    "Hypothesis dense datasets with amplitudes: continuous random templates / whitening / "
    "amplitudes / pc features (full row set), templates or clusters without spikes at any "
    "position including the highest id, unit factors {1, 2.5, 1e-6}, sampling rates {100, 2000, "
    "30000}, curated and un-curated clusters, feature rows whose positive part vanishes. Oracle "
    "(direct formulas on the stored arrays): au[k] = max_c ptp(W[k] @ wmi); spike amplitude = "
    "au[id] * A * f; per-id mean (NaN for ids without spikes; one entry per waveform); rescaled "
    "waveforms have max_c ptp == mean amplitude (rtol 1e-4); templates_amplitudes / "
    "clusters_amplitudes = per-present-id mean of stored amplitudes; peak channels = a maximiser "
    "of ptp over channels; durations = (argmax - argmin along time on the peak channel)/rate*1e3; "
    "depths = sum y*max(f,0)^2 / sum max(f,0)^2 over the spike's template's feature channels (NaN "
    "where the denominator is 0, both sides). For use='clusters' the cluster waveform array the "
    "model exposes (checked by C08) is the input of the formulas. Non-trivial: an id without "
    "spikes exists (low / middle / highest), or factor != 1, or curated. (large) hand-made datasets "
    "with 50 001 spikes (thorough: 49 999 / 50 000 / 50 001 / 100 003) cross the 50 000-spike "
    "batching of get_depths; 1100 templates (thorough: 1025 / 1100 / 2049 / 3000) with curated "
    "clusters; 70 channels (thorough: 64 / 65 / 130 / 384)."
    ' Later additions: every accessor called again after its first result was edited in place; wa'
    'veform units 1e-9..300; 1001/1100 templates; 70 channels.')
ASSUMPTIONS = ['float tolerance rtol 1e-5 (1e-4 for float32 waveforms)']


@st.composite
def _case(draw):
    spec = draw(D.dataset_spec(dense=True, raw=False, naming='ks', amplitudes=True,
                               int_templates=False, full_feature_rows=True, max_nc=12,
                               probe_labels=True, scales=[1.0, 1.0, 1e-9, 1e-6, 300.0]))
    return {'spec': spec, 'factor': draw(st.sampled_from([1, 1.0, 2.5, 1e-6]))}


def _large_cases(th):
    # batching boundary of get_depths (50 000 spikes per batch): just below, at, above, two batches
    for ns in ([50001] if not th else [49999, 50000, 50001, 100003]):
        yield {'spec': D.large_spec(ns, seed=ns % 97), 'factor': 2.5, 'large': True}
    # more than 1024 templates / cluster ids; probes with 64 and more channels
    for nt in ([1100, 1001] if not th else [1001, 1025, 1100, 2001, 2049, 3000]):
        yield {'spec': D.large_curated_spec(nt=nt, ns=3 * nt, seed=nt % 89), 'factor': 2.5,
               'large': True}
    for nc in ([70] if not th else [64, 65, 130, 384]):
        yield {'spec': D.many_channels_spec(nc, nt=5, ns=80, seed=nc % 89), 'factor': 1e-6,
               'large': True}


def drivers(tier):
    th = tier == 'thorough'
    return [dict(kind='hyp', name='summaries', strategy=_case(), examples=100000 if th else 10000),
            dict(kind='enum', name='large', exhaustive=False, bound='spike counts around the '
                 '50 000-spike batch of get_depths', cases=lambda: _large_cases(th))]


def _peak_ok(W, k, ch):
    a = O.ptp(np.asarray(W[k], dtype=np.float64), axis=0)
    return a[int(ch)] >= a.max() - 1e-6 * max(a.max(), 1e-30)


def amplitudes_true_oracle(W, wmi, ids, A, f):
    """(spike amps, per-waveform mean amps with NaN, au)"""
    n = W.shape[0]
    au = np.array([np.max(O.ptp(np.asarray(W[k], dtype=np.float64) @ wmi, axis=0))
                   for k in range(n)])
    sa = np.array([au[int(i)] * a for i, a in zip(ids, A)]) * f
    mean = np.full(n, np.nan)
    for k in range(n):
        mine = [au[k] * a for i, a in zip(ids, A) if int(i) == k]
        if mine:
            mean[k] = np.mean(mine) * f
    return sa, mean, au


def check(case):
    spec, f = case['spec'], case['factor']
    info = {'empty_pos': set()}
    with env.scratch() as d:
        T = D.build(spec, d / 'ds')
        m = D.load(T, must_return)
        try:
            wmi = D.wmi_of(T)
            rate = T.rate
            A = T.amplitudes
            for use, ids, W in (('templates', T.spike_templates, T.templates),
                                ('clusters', T.spike_clusters, np.asarray(m.sparse_clusters.data))):
                n = W.shape[0]
                present = set(int(x) for x in ids)
                for k in range(n):
                    if k not in present:
                        info['empty_pos'].add('highest' if k == n - 1 else
                                              ('lowest' if k == 0 else 'middle'))
                what = 'get_amplitudes_true(%r, use=%r)' % (f, use)
                esa, emean, au = amplitudes_true_oracle(W, wmi, ids, A, f)

                def cmp_true(out, what, W=W, n=n, present=present, esa=esa, emean=emean, au=au):
                    require(isinstance(out, tuple) and len(out) == 3, what + ': not a triple',
                            key='amp-true-type')
                    sa, wf, mean = out
                    same_array(what + ': spike amplitudes', sa, esa, key='amp-true-spikes',
                               dtype=False, tol=(1e-5, 0))
                    same_array(what + ': per-%s mean amplitudes' % use[:-1], mean, emean,
                               key='amp-true-means', dtype=False, tol=(1e-5, 0))
                    wf = np.asarray(wf)
                    require(wf.shape == W.shape, what + ': rescaled waveforms shape',
                            key='amp-true-wf-shape', observed=wf.shape, expected=W.shape)
                    for k in range(n):
                        if k in present:
                            peak = np.max(O.ptp(wf[k].astype(np.float64), axis=0))
                            require(abs(peak - emean[k]) <= 1e-4 * abs(emean[k]) + 1e-30,
                                    what + ': rescaled waveform %d has not the mean amplitude as '
                                    'peak amplitude' % k, key='amp-true-rescaled', observed=peak,
                                    expected=emean[k])
                            # and it is the unwhitened waveform up to that scale
                            U = np.asarray(W[k], dtype=np.float64) @ wmi
                            e = U * (emean[k] / au[k])
                            require(np.allclose(wf[k], e, rtol=1e-4,
                                                atol=1e-5 * float(np.max(np.abs(e)))),
                                    what + ': rescaled waveform %d is not the unwhitened waveform '
                                    'times mean/au' % k, key='amp-true-wf', observed=wf[k],
                                    expected=e)
                core.twice(what, lambda: m.get_amplitudes_true(f, use=use), cmp_true)
                # simple means of the stored amplitudes per present id
                prop = 'templates_amplitudes' if use == 'templates' else 'clusters_amplitudes'
                exp = np.array([np.mean([a for i, a in zip(ids, A) if int(i) == k])
                                for k in sorted(present)])
                core.twice(prop, lambda: getattr(m, prop), lambda got, what, exp=exp: same_array(
                    what, got, exp, key='mean-stored-amplitudes', dtype=False, tol=(1e-9, 0)))
                # peak channels
                prop = 'templates_channels' if use == 'templates' else 'clusters_channels'

                def cmp_peaks(chs, what, W=W, n=n):
                    chs = np.asarray(chs)
                    require(chs.shape == (n,), what + ' length', key='peak-channels-len',
                            observed=chs.shape, expected=n)
                    for k in range(n):
                        require(_peak_ok(W, k, chs[k]), '%s[%d] is not a channel of maximal '
                                'peak-to-peak amplitude' % (what, k), key='peak-channels',
                                observed=int(chs[k]))
                core.twice(prop, lambda: getattr(m, prop), cmp_peaks)
                # durations
                prop = 'templates_waveforms_durations' if use == 'templates' else \
                    'clusters_waveforms_durations'

                def cmp_durations(du, what, W=W, n=n):
                    du = np.asarray(du)
                    require(du.shape == (n,), what + ' length', key='durations-len',
                            observed=du.shape)
                    for k in range(n):
                        Wk = np.asarray(W[k], dtype=np.float64)
                        a = O.ptp(Wk, axis=0)
                        cands = [c for c in range(Wk.shape[1]) if a[c] >= a.max() - 1e-9 * max(
                            a.max(), 1e-30)]
                        exps = [(int(np.argmax(Wk[:, c])) - int(np.argmin(Wk[:, c]))) / rate * 1e3
                                for c in cands]
                        require(any(abs(du[k] - e) <= 1e-9 * max(1.0, abs(e)) for e in exps),
                                '%s[%d] is not (argmax-argmin on the peak channel)/rate*1e3' % (
                                    what, k), key='durations', observed=du[k], expected=exps)
                core.twice(prop, lambda: getattr(m, prop), cmp_durations)
            # template probes
            labels = T.probes if T.probes is not None else np.zeros(spec['nc'], dtype=np.int32)
            tch = np.array(m.templates_channels, copy=True)
            core.twice('templates_probes', lambda: m.templates_probes,
                       lambda tp, what: same_array(
                           what + ' (stored probe label of the peak channel)', tp,
                           labels[tch.astype(np.int64)], key='templates-probes', dtype=False))
            # depths
            if T.pcf is None:
                dp = must_return('get_depths', m.get_depths)
                require(dp is None, 'get_depths without features', key='depths-none', observed=dp)
            else:
                exp = np.zeros(spec['ns'])
                for s in range(spec['ns']):
                    t = int(T.spike_templates[s])
                    num = den = 0.0
                    for k in range(T.pcf.shape[2]):
                        w = max(float(T.pcf[s, 0, k]), 0.0) ** 2
                        num += T.pos[int(T.pcf_ind[t, k]), 1] * w
                        den += w
                    exp[s] = num / den if den > 0 else np.nan
                    if den == 0:
                        info['zero_den'] = True
                with core.without('fp', 'warn'):
                    # get_depths divides by the summed positive feature part, which may be 0
                    # (-> NaN under the default floating-point error state)
                    core.twice('get_depths', m.get_depths, lambda dp, what: same_array(
                        what, dp, exp, key='depths', dtype=False, tol=(1e-5, 1e-9)))
        finally:
            m.close()
    info['empty_pos'] = sorted(info['empty_pos'])
    return info


def classify(case, info):
    s = case['spec']
    labels = ['factor:%r' % case['factor'], 'rate:%d' % s['rate']]
    if case.get('large'):
        labels.append('large:%d-spikes' % s['ns'])
    if s['nt'] > 1024:
        labels.append('>1024-templates')
    if s['nc'] >= 64:
        labels.append('>=64-channels')
    nt = False
    for p in info['empty_pos']:
        labels.append('id-without-spikes:' + p)
        nt = True
    if case['factor'] not in (1, 1.0):
        nt = True
    if s['curation']:
        labels.append('curated')
        nt = True
    if s['pcf']:
        labels.append('features')
    if info.get('zero_den'):
        labels.append('depth-denominator-zero')
    if s['wm']:
        labels.append('whitened')
    if s['templates'].get('scale', 1.0) != 1.0:
        labels.append('waveform-units:%g' % s['templates']['scale'])
    return labels, nt
