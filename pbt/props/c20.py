# -*- coding: utf-8 -*-
"""C20 - no download is reported successful with a file failing its published checksum."""

import contextlib
import os
import functools
import hashlib
import io
import itertools

import responses
from pathlib import Path

from .. import env
from .. import core
from ..core import require, Violation

env.import_phylib()
from phylib.io import datasets as _ds  # noqa: E402
from phylib.io.datasets import download_file, download_test_file  # noqa: E402
from phylib.utils import event as _event  # noqa: E402

ID = 'C20'
LEVEL = 'fault_enumeration'
URL = 'http://verif.test/data/file.bin'
RULE = (
    "Exhaustive fault enumeration against an in-process HTTP mock (responses): data-URL response "
    "scripts of length <=3 (thorough: <=4, plus a truncated-body fault 't' and body sizes "
    "0,1,1023,1024,1025,2048,5000 around the 1024-byte stream chunk) over {g=correct body, "
    "c=corrupted body, e=empty 200 body, 4=HTTP 404, 5=HTTP 503} x checksum behaviour, both constant {o=correct, w=wrong, "
    "m=unavailable; the checksum file is '<md5>  name', bare, 'md5sum -b' style or naming another path, the wrong checksum is all zeros, another digest, one character short or too long) and scripted sequences of length <=3 over the same alphabet x prior target "
    "file {absent, valid, corrupt}. Requests beyond a script's end answer HTTP 500 (data) / 404 "
    "(checksum). HEAD on the data URL answers with the status and Content-Length of what the next GET would serve (without consuming the script). (big-bodies) bodies of 1 MiB + 577 bytes (thorough: up to 4 MiB + 1). Oracle: a reference model of "
    "the statement (pre-check, download, verify, exactly one retry on mismatch, raise on "
    "persistent mismatch or HTTP error) predicts outcome class, number of data and checksum "
    "requests and final file; independently: a normal return whose last verification had a "
    "checksum available leaves a file whose MD5 equals that checksum. Non-trivial: a "
    "corrupt-then-good or good-after-error pattern, a checksum behaviour that changes within the "
    "call, or a pre-existing file."
    ' Later additions: HEAD answered by the mock, HTTP 503, target path as Path/str/through a sym'
    "linked directory/with '..', the download_test_file route (also two names in one cache direct"
    'ory), bodies beyond 1 MiB.')
ASSUMPTIONS = ['responses 0.x as HTTP mock for requests', 'hashlib.md5']


def wrong_checksum(md5_good, fmt):
    """A published checksum that does not match: all zeros, another MD5, a damaged one (one
    character lost), or a longer digest."""
    return ['0' * 32, 'f' * 32, md5_good[:-1], md5_good + '00000000'][(fmt // 4) % 2 * 2 + fmt % 2]


@functools.lru_cache(maxsize=4)
def _body(size):
    if size > 100000:
        import numpy as np
        return ((np.arange(size, dtype=np.int64) * 131 + 17) % 256).astype(np.uint8).tobytes()
    return bytes((i * 131 + 17) % 256 for i in range(size))


def _scripts(alphabet, maxlen):
    for k in range(1, maxlen + 1):
        for s in itertools.product(alphabet, repeat=k):
            yield ''.join(s)


def _cases(th):
    dalpha = 'gcte45' if th else 'gce45'
    sizes = [0, 1, 1023, 1024, 1025, 2048, 5000] if th else [5000]
    k = 0
    for size in sizes:
        L = 4 if (th and size == 1024) else 3
        for ds in _scripts(dalpha, L):
            cks = [('const', c) for c in 'owm'] + [('script', s) for s in _scripts('owm', 3)]
            for ckind, ck in cks:
                for prior in ('absent', 'valid', 'corrupt'):
                    k += 1
                    # the checksum file is served as text/plain or as application/octet-stream
                    yield {'data': ds, 'ck': ck, 'ckind': ckind, 'prior': prior, 'size': size,
                           'ctype': k % 2, 'fmt': (k // 2) % 8, 'pathkind': (k // 16) % 4,
                           'route': (k // 64) % 2}


def _big_cases(th):
    # bodies of more than 1 MiB that are not a whole number of MiB (hashing / streaming in blocks)
    k = 0
    for size in [2 ** 20 + 577] + ([2 ** 21 + 2 ** 19 + 3, 2 ** 20, 2 ** 22 + 1] if th else []):
        for ds in ('g', 'cg', 'cc', 'c4'):
            for prior in ('absent', 'valid', 'corrupt'):
                k += 1
                yield {'data': ds, 'ck': 'o', 'ckind': 'const', 'prior': prior, 'size': size,
                       'ctype': k % 2, 'fmt': k % 8}


def drivers(tier):
    th = tier == 'thorough'
    return [dict(kind='enum', name='wrapper-names', exhaustive=False,
                 bound='8 hand-made pairs of names with and without a directory part',
                 cases=_name_cases),
            dict(kind='enum', name='big-bodies', exhaustive=False,
                 bound='bodies of 1 MiB + 577 bytes (thorough: up to 4 MiB + 1)',
                 cases=lambda: _big_cases(th)),
            dict(kind='enum', name='faults', exhaustive=True,
                 bound='data scripts <=%d, checksum const+scripts<=3, 3 prior states' %
                       (4 if th else 3),
                 cases=lambda: _cases(th))]


def _variants(size):
    good = _body(size)
    if size:
        corrupt = good[:-1] + bytes([(good[-1] + 1) % 256])
        trunc = good[:-1]
    else:
        corrupt = b'X'
        trunc = b'Y'
    return good, corrupt, trunc


def _model(case, good, corrupt, trunc):
    """Reference model written from the statement."""
    md5_good = hashlib.md5(good).hexdigest()
    data = list(case['data'])
    ck = case['ck']
    ck_i = [0]
    log = {'data': 0, 'md5': 0, 'last_md5': None}

    def next_md5(content):
        log['md5'] += 1
        if case['ckind'] == 'const':
            a = ck
        else:
            a = ck[ck_i[0]] if ck_i[0] < len(ck) else 'm'
            ck_i[0] += 1
        log['last_md5'] = a
        if a == 'm':
            return None
        published = md5_good if a == 'o' else wrong_checksum(md5_good, case.get('fmt', 0))
        return hashlib.md5(content).hexdigest() == published

    def next_data():
        log['data'] += 1
        d = data.pop(0) if data else 'X'
        return {'g': good, 'c': corrupt, 't': trunc, 'e': b''}.get(d)

    content = {'absent': None, 'valid': good, 'corrupt': corrupt}[case['prior']]
    if content is not None:
        if next_md5(content) is True:
            return 'return', content, log
    body = next_data()
    if body is None:
        return 'http-error', content, log
    content = body
    if next_md5(content) is False:
        body = next_data()
        if body is None:
            return 'http-error', content, log
        content = body
        if next_md5(content) is False:
            return 'runtime-error', content, log
    return 'return', content, log


def _name_cases():
    # the wrapper with file names that have a directory part (several files per folder of the
    # data repository), one after the other into the same cache directory
    for a, b in (('probe0/channel_map.bin', 'probe1/channel_map.bin'),
                 ('a/b/x.bin', 'a/c/x.bin'), ('x.bin', 'sub/x.bin'), ('u.bin', 'v.bin')):
        for force in (False, True):
            yield {'k': 'names', 'names': [a, b], 'force': force}


def _check_names(case):
    base = URL[:-len('file.bin')]
    _ds._BASE_URL = base
    bodies = {n: _body(300 + 7 * i) + n.encode() for i, n in enumerate(case['names'])}
    with env.scratch() as d:
        with responses.RequestsMock(assert_all_requests_are_fired=False) as rm:
            for n, body in bodies.items():
                rm.add(responses.GET, base + n, body=body, status=200)
                rm.add(responses.GET, base + n + '.md5',
                       body=hashlib.md5(body).hexdigest() + '  ' + n.split('/')[-1] + '\n',
                       status=200)
            for n in case['names']:
                _event.reset()
                with contextlib.redirect_stdout(io.StringIO()), core.ambient_ctx():
                    try:
                        ret = download_test_file(n, config_dir=d, force=case['force'])
                    except Exception as e:
                        raise Violation('download_test_file(%r) raised %s' % (n, type(e).__name__),
                                        key='wrapper-raised')
                got = hashlib.md5(Path(ret).read_bytes()).hexdigest()
                require(got == hashlib.md5(bodies[n]).hexdigest(),
                        'download_test_file(%r) returned normally with a file that fails the '
                        'checksum published for it' % n, key='bad-file-returned',
                        observed=(str(ret), got), expected=hashlib.md5(bodies[n]).hexdigest())
    return {'outcome': 'return', 'data': 0}


def check(case):
    if case.get('k') == 'names':
        return _check_names(case)
    import requests
    good, corrupt, trunc = _variants(case['size'])
    md5_good = hashlib.md5(good).hexdigest()
    exp_outcome, exp_content, exp_log = _model(case, good, corrupt, trunc)
    data = list(case['data'])
    ck = case['ck']
    seen = {'data': 0, 'md5': 0, 'last_md5': None, 'ck_i': 0, 'exhausted': False}

    def data_cb(req):
        seen['data'] += 1
        d = data.pop(0) if data else 'X'
        if d == 'g':
            return (200, {}, good)
        if d == 'c':
            return (200, {}, corrupt)
        if d == 't':
            return (200, {}, trunc)
        if d == 'e':
            return (200, {}, b'')
        if d == '4':
            return (404, {}, b'not found')
        if d == '5':
            return (503, {}, b'service unavailable, try later')
        seen['exhausted'] = True
        return (500, {}, b'script exhausted')

    def head_cb(req):
        # a server answers HEAD with the status and length of what GET would serve now
        d = data[0] if data else 'X'
        body = {'g': good, 'c': corrupt, 't': trunc, 'e': b'', '4': b'not found',
                '5': b'service unavailable, try later'}.get(d, b'script exhausted')
        seen['head'] = seen.get('head', 0) + 1
        return ({'4': 404, '5': 503, 'X': 500}.get(d, 200), {'Content-Length': str(len(body))}, b'')

    def md5_cb(req):
        seen['md5'] += 1
        if case['ckind'] == 'const':
            a = ck
        else:
            a = ck[seen['ck_i']] if seen['ck_i'] < len(ck) else 'm'
            seen['ck_i'] += 1
        seen['last_md5'] = a
        hdr = {'Content-Type': 'application/octet-stream'} if case.get('ctype') else {}
        fmt = case.get('fmt', 0)
        # formats the code accepts (split on the first blank): md5sum style with any name, or the
        # bare digest WITHOUT a newline (a bare digest followed by a newline is read as a mismatch on
        # the unchanged tree - it fails safe - and is not generated)
        tail = ['  file.bin\n', '', ' *file.bin\n', '  ./mirror/other-name.bin\n'][fmt % 4]
        if a == 'o':
            return (200, hdr, md5_good + tail)
        if a == 'w':
            return (200, hdr, wrong_checksum(md5_good, fmt) + tail)
        return (404, {}, 'not found')

    _ds._BASE_URL = URL[:-len('file.bin')]
    with env.scratch() as d:
        p = d / 'target.bin'
        p_arg = p
        pk = case.get('pathkind', 0)
        if case.get('route'):
            pk = 0
            (d / 'test_data').mkdir()
            p = p_arg = d / 'test_data' / 'file.bin'
        if pk == 1:
            p_arg = str(p)
        elif pk == 2:
            # the same file spelled through a symlinked directory and '..'
            (d / 'releases' / 'v2').mkdir(parents=True)
            os.symlink(str(d / 'releases' / 'v2'), str(d / 'current'), target_is_directory=True)
            p = d / 'releases' / 'target.bin'
            p_arg = str(d / 'current' / '..' / 'target.bin')
        elif pk == 3:
            (d / 'sub').mkdir()
            os.symlink(str(d), str(d / 'sub' / 'back'), target_is_directory=True)
            p_arg = d / 'sub' / 'back' / 'target.bin'
        if case['prior'] == 'valid':
            p.write_bytes(good)
        elif case['prior'] == 'corrupt':
            p.write_bytes(corrupt)
        with responses.RequestsMock(assert_all_requests_are_fired=False) as rm:
            rm.add_callback(responses.GET, URL, callback=data_cb)
            rm.add_callback(responses.GET, URL + '.md5', callback=md5_cb)
            rm.add_callback(responses.HEAD, URL, callback=head_cb)
            try:
                _event.reset()  # progress callbacks registered by earlier cases
                with contextlib.redirect_stdout(io.StringIO()), core.ambient_ctx():
                    if case.get('route'):
                        # the convenience wrapper: <config dir>/test_data/<name>, from a base URL
                        ret = download_test_file('file.bin', config_dir=d,
                                                 force=case['prior'] != 'absent')
                        require(Path(ret) == p, 'download_test_file returned another path',
                                key='wrapper-path', observed=ret, expected=p)
                    else:
                        download_file(URL, p_arg)
                outcome = 'return'
            except RuntimeError:
                outcome = 'runtime-error'
            except requests.exceptions.HTTPError:
                outcome = 'http-error'
            except Exception as e:
                outcome = 'other:' + type(e).__name__
        content = p.read_bytes() if p.exists() else None

    desc = (case, 'outcome=%s data_requests=%d md5_requests=%d' % (outcome, seen['data'], seen['md5']))
    # (i) the safety property itself, independent of the model
    if outcome == 'return' and seen['last_md5'] in ('o', 'w'):
        published = md5_good if seen['last_md5'] == 'o' else wrong_checksum(md5_good, case.get('fmt', 0))
        got = hashlib.md5(content).hexdigest() if content is not None else None
        require(got == published, 'download returned normally but the file fails the published '
                'checksum', key='bad-file-returned', observed=desc, expected=published)
    # (ii) valid existing file is not downloaded again
    if case['prior'] == 'valid' and exp_log['data'] == 0:
        require(seen['data'] == 0 and outcome == 'return', 'valid existing file downloaded again',
                key='redownloaded-valid', observed=desc)
    # (iii) request counts: exactly one retry on mismatch, never more
    require(seen['data'] <= 2, 'more than one retry', key='too-many-requests', observed=desc)
    require(seen['data'] == exp_log['data'], 'number of data requests differs from the model',
            key='request-count', observed=desc, expected=exp_log)
    # (iv) persistent mismatch / HTTP error raises
    if exp_outcome != 'return':
        require(outcome != 'return', 'call returned although it had to raise', key='no-raise',
                observed=desc, expected=exp_outcome)
    # only raise-versus-return is claimed, not the exception type; the number of checksum requests
    # and the bytes of an unverifiable file are not claimed either.
    require((outcome == 'return') == (exp_outcome == 'return'),
            'outcome (return vs raise) differs from the model', key='outcome', observed=desc,
            expected=exp_outcome)
    return {'outcome': outcome, 'data': seen['data']}


def classify(case, info):
    if case.get('k') == 'names':
        return ['wrapper:two-names-one-cache-directory'], True
    labels = ['outcome:' + info['outcome'], 'prior:' + case['prior'], 'datareq:%d' % info['data']]
    nt = False
    d = case['data']
    if 'cg' in d or 'tg' in d or '4g' in d or 'eg' in d:
        labels.append('recovering-script')
        nt = True
    if case['ckind'] == 'script' and len(set(case['ck'])) > 1:
        labels.append('checksum-changes')
        nt = True
    if case['prior'] != 'absent':
        nt = True
    if info['data'] == 2:
        labels.append('retried')
    if case['size'] > 2 ** 20:
        labels.append('body>1MiB')
    labels.append('route:' + ['download_file', 'download_test_file'][case.get('route', 0)])
    labels.append('path:' + ['Path', 'str', 'symlinked-dir/..', 'symlinked-dir'][case.get('pathkind', 0)])
    return labels, nt
