#!/bin/sh
# Offline setup: make sure everything the checks import is available to /venv/bin/python.
# Nothing is fetched from a network; missing wheels are taken from /opt/veriftools/wheels.
set -e
cd "$(dirname "$0")"
PY=/venv/bin/python
need=""
for m in hypothesis numpy scipy responses requests mtscomp tqdm; do
  if ! PYTHONPATH="$PWD/.deps" $PY -c "import $m" 2>/dev/null; then need="$need $m"; fi
done
if [ -n "$need" ]; then
  echo "installing offline into .deps:$need"
  PIP_NO_INDEX=1 $PY -m pip install --no-index --find-links /opt/veriftools/wheels --target "$PWD/.deps" $need
fi
mkdir -p evidence replays
PYTHONHASHSEED=0 $PY -c "
import sys; sys.path.insert(0, '.')
from pbt import env
env.import_phylib()
import phylib.io.model, phylib.io.merge, phylib.io.alf, phylib.io.datasets, phylib.stats.ccg
import hypothesis
print('setup ok: phylib from', env.REPO, 'hypothesis', hypothesis.__version__)
"
